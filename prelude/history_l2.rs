// ---------------------------------------------------------------------------------------------
// Unit history, L2: one step in normal form, the invariants, the history theorems (C06 / C10).  Pure lemmas, all proved;
// explicit hypotheses only: visitors_file_local / ev_local (discharged by unit visit) -- see units/history.rs.

pub proof fn lemma_sub_all_in_file(ds: Seq<DefV>, p: spec_fn(DefV) -> bool, f: PV)
    requires all_in_file(ds, f)
    ensures all_in_file(ds.filter(p), f)
{
    assert forall|i: int| 0 <= i < ds.filter(p).len() implies (#[trigger] ds.filter(p)[i]).file == f by {
        let j = lemma_filter_elem(ds, p, i);
    }
}
pub proof fn lemma_sub_uses_in_file(us: Seq<UseV>, p: spec_fn(UseV) -> bool, f: PV)
    requires uses_in_file(us, f)
    ensures uses_in_file(us.filter(p), f)
{
    assert forall|i: int| 0 <= i < us.filter(p).len() implies (#[trigger] us.filter(p)[i]).file == f by {
        let j = lemma_filter_elem(us, p, i);
    }
}

// ---- ONE step in normal form ------------------------------------------------------------------------------------------
/// analyze_file with a parsable text, bucket by bucket: under every name the definitions of the OTHER files stay (in
/// order) and the text's definitions of that name are appended; file_definitions / usages of f are exactly the text's;
/// the reverse index likewise.  Needs W1 only (for "cleanup removes EVERY definition of f").
pub proof fn lemma_step_nf(s: IdxV, f: PV, t: Seq<char>)
    requires w1(s.defs, s.fdefs), ev_local(f, t), parse_ok(t)
    ensures step_nf(s, f, t, step(s, f, t))
{
    let r = step(s, f, t);
    let c = clean_defs_names(s.defs, f, sbucket(s.fdefs, f));
    assert forall|n: Seq<char>| #[trigger] bucket(r.defs, n) == bucket(s.defs, n).filter(not_in_file(f)) + vd(f, t).filter(named(n)) by {
        lemma_clean_defs_nf(s.defs, s.fdefs, f, n);
        lemma_push_defs_nf(c, vd(f, t), n);
    }
    assert forall|g: PV| #[trigger] sbucket(r.fdefs, g) == (if g == f { names_of(vd(f, t)) } else { sbucket(s.fdefs, g) }) by {
        lemma_add_fdefs_nf(s.fdefs.remove(f), vd(f, t), f, g);
        assert(Set::<Seq<char>>::empty().union(names_of(vd(f, t))) =~= names_of(vd(f, t)));
    }
    assert forall|g: PV| #[trigger] bucket(r.uses, g) == (if g == f { vu(f, t) } else { bucket(s.uses, g) }) by {
        lemma_push_uses_bucket(s.uses.remove(f), vu(f, t), f, g);
        assert(Seq::<UseV>::empty() + vu(f, t) =~= vu(f, t));
    }
    assert forall|n: Seq<char>| #[trigger] bucket(r.byfix, n) == bucket(s.byfix, n).filter(pair_not_in_file(f)) + pairs_of(vu(f, t).filter(use_named(n))) by {
        lemma_clean_byfix_nf(s.byfix, f, n);
        lemma_push_byfix_nf(clean_byfix(s.byfix, f), vu(f, t), n);
    }
}
/// analyze_file_fresh with a parsable text, bucket by bucket (no hypothesis about the state)
pub proof fn lemma_fresh_nf(s: IdxV, f: PV, t: Seq<char>)
    requires ev_local(f, t), parse_ok(t)
    ensures fresh_nf(s, f, t, step_fresh(s, f, t))
{
    let r = step_fresh(s, f, t);
    assert forall|n: Seq<char>| #[trigger] bucket(r.defs, n) == bucket(s.defs, n) + vd(f, t).filter(named(n)) by {
        lemma_push_defs_nf(s.defs, vd(f, t), n);
    }
    assert forall|g: PV| #[trigger] sbucket(r.fdefs, g) == (if g == f { sbucket(s.fdefs, f).union(names_of(vd(f, t))) } else { sbucket(s.fdefs, g) }) by {
        lemma_add_fdefs_nf(s.fdefs, vd(f, t), f, g);
    }
    assert forall|g: PV| #[trigger] bucket(r.uses, g) == (if g == f { vu(f, t) } else { bucket(s.uses, g) }) by {
        lemma_push_uses_bucket(s.uses.remove(f), vu(f, t), f, g);
        assert(Seq::<UseV>::empty() + vu(f, t) =~= vu(f, t));
    }
    assert forall|n: Seq<char>| #[trigger] bucket(r.byfix, n) == bucket(s.byfix, n).filter(pair_not_in_file(f)) + pairs_of(vu(f, t).filter(use_named(n))) by {
        lemma_clean_byfix_nf(s.byfix, f, n);
        lemma_push_byfix_nf(clean_byfix(s.byfix, f), vu(f, t), n);
    }
}

// ---- invariants -----------------------------------------------------------------------------------------------------------
/// W1 alone is inductive (needs only "the visitors file definitions under the analysed file")
pub proof fn lemma_step_preserves_w1(s: IdxV, f: PV, t: Seq<char>)
    requires w1(s.defs, s.fdefs), ev_local(f, t)
    ensures w1(step(s, f, t).defs, step(s, f, t).fdefs)
{
    if parse_ok(t) {
        let r = step(s, f, t);
        lemma_step_nf(s, f, t);
        assert forall|n: Seq<char>, i: int| r.defs.contains_key(n) && 0 <= i < r.defs[n].len() implies
            r.fdefs.contains_key((#[trigger] r.defs[n][i]).file) && r.fdefs[r.defs[n][i].file].contains(n) by
        {
            let a = bucket(s.defs, n).filter(not_in_file(f));
            let b = vd(f, t).filter(named(n));
            assert(bucket(r.defs, n) == a + b);
            let d = r.defs[n][i];
            if i < a.len() {
                let j = lemma_filter_elem(bucket(s.defs, n), not_in_file(f), i);
                assert(s.defs.contains_key(n) && s.defs[n][j] == d);
                assert(sbucket(s.fdefs, d.file).contains(n));
                assert(sbucket(r.fdefs, d.file) == sbucket(s.fdefs, d.file));
            } else {
                let j = lemma_filter_elem(vd(f, t), named(n), i - a.len());
                assert(vd(f, t)[j] == d && d.file == f);
                lemma_names_of_has(vd(f, t), j);
                assert(sbucket(r.fdefs, f) == names_of(vd(f, t)));
            }
        }
    }
}
/// ... and analyze_file_fresh keeps it too (file_definitions only grows, every pushed definition is listed)
pub proof fn lemma_fresh_preserves_w1(s: IdxV, f: PV, t: Seq<char>)
    requires w1(s.defs, s.fdefs), ev_local(f, t)
    ensures w1(step_fresh(s, f, t).defs, step_fresh(s, f, t).fdefs)
{
    if parse_ok(t) {
        let r = step_fresh(s, f, t);
        lemma_fresh_nf(s, f, t);
        assert forall|n: Seq<char>, i: int| r.defs.contains_key(n) && 0 <= i < r.defs[n].len() implies
            r.fdefs.contains_key((#[trigger] r.defs[n][i]).file) && r.fdefs[r.defs[n][i].file].contains(n) by
        {
            let a = bucket(s.defs, n);
            let b = vd(f, t).filter(named(n));
            assert(bucket(r.defs, n) == a + b);
            let d = r.defs[n][i];
            if i < a.len() {
                assert(s.defs.contains_key(n) && s.defs[n][i] == d);
                assert(sbucket(s.fdefs, d.file).contains(n));
                assert(sbucket(r.fdefs, d.file) == (if d.file == f { sbucket(s.fdefs, f).union(names_of(vd(f, t))) } else { sbucket(s.fdefs, d.file) }));
            } else {
                let j = lemma_filter_elem(vd(f, t), named(n), i - a.len());
                assert(vd(f, t)[j] == d && d.file == f);
                lemma_names_of_has(vd(f, t), j);
                assert(sbucket(r.fdefs, f) == sbucket(s.fdefs, f).union(names_of(vd(f, t))));
            }
        }
    }
}
/// no empty bucket: inductive together with W1
pub proof fn lemma_step_preserves_core(s: IdxV, f: PV, t: Seq<char>)
    requires core(s), ev_local(f, t)
    ensures core(step(s, f, t))
{
    lemma_step_preserves_w1(s, f, t);
    if parse_ok(t) {
        let r = step(s, f, t);
        let c = clean_defs_names(s.defs, f, sbucket(s.fdefs, f));
        lemma_step_nf(s, f, t);
        assert forall|n: Seq<char>| r.defs.contains_key(n) implies (#[trigger] r.defs[n]).len() > 0 by {
            lemma_clean_defs_nf(s.defs, s.fdefs, f, n);
            lemma_push_defs_nf(c, vd(f, t), n);
            assert(bucket(r.defs, n) == bucket(s.defs, n).filter(not_in_file(f)) + vd(f, t).filter(named(n)));
        }
        assert(setmap_ne(s.fdefs.remove(f)));
        lemma_add_fdefs_nf(s.fdefs.remove(f), vd(f, t), f, f);
        assert(seqmap_ne(s.uses.remove(f)));
        lemma_push_uses_key(s.uses.remove(f), vu(f, t), f);
        assert forall|n: Seq<char>| r.byfix.contains_key(n) implies (#[trigger] r.byfix[n]).len() > 0 by {
            lemma_clean_byfix_nf(s.byfix, f, n);
            lemma_push_byfix_nf(clean_byfix(s.byfix, f), vu(f, t), n);
            assert(bucket(r.byfix, n) == bucket(s.byfix, n).filter(pair_not_in_file(f)) + pairs_of(vu(f, t).filter(use_named(n))));
        }
    }
}
pub proof fn lemma_fresh_preserves_core(s: IdxV, f: PV, t: Seq<char>)
    requires core(s), ev_local(f, t)
    ensures core(step_fresh(s, f, t))
{
    lemma_fresh_preserves_w1(s, f, t);
    if parse_ok(t) {
        let r = step_fresh(s, f, t);
        lemma_fresh_nf(s, f, t);
        assert forall|n: Seq<char>| r.defs.contains_key(n) implies (#[trigger] r.defs[n]).len() > 0 by {
            lemma_push_defs_nf(s.defs, vd(f, t), n);
            assert(bucket(r.defs, n) == bucket(s.defs, n) + vd(f, t).filter(named(n)));
        }
        lemma_add_fdefs_nf(s.fdefs, vd(f, t), f, f);
        assert(seqmap_ne(s.uses.remove(f)));
        lemma_push_uses_key(s.uses.remove(f), vu(f, t), f);
        assert forall|n: Seq<char>| r.byfix.contains_key(n) implies (#[trigger] r.byfix[n]).len() > 0 by {
            lemma_clean_byfix_nf(s.byfix, f, n);
            lemma_push_byfix_nf(clean_byfix(s.byfix, f), vu(f, t), n);
            assert(bucket(r.byfix, n) == bucket(s.byfix, n).filter(pair_not_in_file(f)) + pairs_of(vu(f, t).filter(use_named(n))));
        }
    }
}
/// the reverse-index entries recorded for usages of file f are filed under f
pub proof fn lemma_pairs_in_file(us: Seq<UseV>, f: PV, g: PV)
    requires uses_in_file(us, f)
    ensures
        g != f ==> pairs_of(us).filter(pair_in_file(g)) =~= Seq::<(PV, UseV)>::empty(),
        pairs_of(us).filter(pair_in_file(f)) == pairs_of(us),
        pairs_of(us).filter(pair_not_in_file(f)) =~= Seq::<(PV, UseV)>::empty(),
{
    let ps = pairs_of(us);
    assert forall|i: int| 0 <= i < ps.len() implies (#[trigger] ps[i]).0 == f by { assert(ps[i] == (us[i].file, us[i])); }
    if g != f { lemma_filter_none(ps, pair_in_file(g)); }
    lemma_filter_all(ps, pair_in_file(f));
    lemma_filter_none(ps, pair_not_in_file(f));
}
/// the remaining well-formedness clauses are inductive: own name, own file, (file, name) of reverse entries, mirror
pub proof fn lemma_step_preserves_wf(s: IdxV, f: PV, t: Seq<char>)
    requires w1(s.defs, s.fdefs), wf(s), ev_local(f, t)
    ensures wf(step(s, f, t))
{
    if parse_ok(t) {
        let r = step(s, f, t);
        lemma_step_nf(s, f, t);
        assert forall|n: Seq<char>, i: int| r.defs.contains_key(n) && 0 <= i < r.defs[n].len() implies (#[trigger] r.defs[n][i]).name == n by {
            let a = bucket(s.defs, n).filter(not_in_file(f));
            assert(bucket(r.defs, n) == a + vd(f, t).filter(named(n)));
            if i < a.len() {
                let j = lemma_filter_elem(bucket(s.defs, n), not_in_file(f), i);
                assert(s.defs.contains_key(n) && s.defs[n][j] == r.defs[n][i]);
            } else {
                let j = lemma_filter_elem(vd(f, t), named(n), i - a.len());
            }
        }
        assert forall|g: PV, i: int| r.uses.contains_key(g) && 0 <= i < r.uses[g].len() implies (#[trigger] r.uses[g][i]).file == g by {
            assert(bucket(r.uses, g) == (if g == f { vu(f, t) } else { bucket(s.uses, g) }));
            if g != f { assert(s.uses.contains_key(g) && s.uses[g][i] == r.uses[g][i]); }
        }
        assert forall|n: Seq<char>, i: int| r.byfix.contains_key(n) && 0 <= i < r.byfix[n].len() implies
            (#[trigger] r.byfix[n][i]).0 == r.byfix[n][i].1.file && r.byfix[n][i].1.name == n by
        {
            let a = bucket(s.byfix, n).filter(pair_not_in_file(f));
            let b = vu(f, t).filter(use_named(n));
            assert(bucket(r.byfix, n) == a + pairs_of(b));
            if i < a.len() {
                let j = lemma_filter_elem(bucket(s.byfix, n), pair_not_in_file(f), i);
                assert(s.byfix.contains_key(n) && s.byfix[n][j] == r.byfix[n][i]);
            } else {
                let k = i - a.len();
                assert(r.byfix[n][i] == pairs_of(b)[k]);
                let j = lemma_filter_elem(vu(f, t), use_named(n), k);
            }
        }
        lemma_step_mirror(s, f, t);
    }
}
pub proof fn lemma_step_mirror(s: IdxV, f: PV, t: Seq<char>)
    requires w1(s.defs, s.fdefs), mirror_strong(s.uses, s.byfix), ev_local(f, t), parse_ok(t)
    ensures mirror_strong(step(s, f, t).uses, step(s, f, t).byfix)
{
    let r = step(s, f, t);
    lemma_step_nf(s, f, t);
    assert forall|g: PV, n: Seq<char>| #[trigger] bucket(r.byfix, n).filter(pair_in_file(g)) == pairs_of(bucket(r.uses, g).filter(use_named(n))) by {
        let a = bucket(s.byfix, n).filter(pair_not_in_file(f));
        let b = vu(f, t).filter(use_named(n));
        assert(bucket(r.byfix, n) == a + pairs_of(b));
        assert(bucket(r.uses, g) == (if g == f { vu(f, t) } else { bucket(s.uses, g) }));
        lemma_filter_add(a, pairs_of(b), pair_in_file(g));
        lemma_sub_uses_in_file(vu(f, t), use_named(n), f);
        lemma_pairs_in_file(b, f, g);
        if g == f {
            lemma_filter_disjoint(bucket(s.byfix, n), pair_not_in_file(f), pair_in_file(f));
            assert(Seq::<(PV, UseV)>::empty() + pairs_of(b) =~= pairs_of(b));
        } else {
            lemma_filter_implied(bucket(s.byfix, n), pair_not_in_file(f), pair_in_file(g));
            assert(bucket(s.byfix, n).filter(pair_in_file(g)) == pairs_of(bucket(s.uses, g).filter(use_named(n))));
            assert(a.filter(pair_in_file(g)) + Seq::<(PV, UseV)>::empty() =~= a.filter(pair_in_file(g)));
        }
    }
}
//@tags C06 C10
/// INVARIANT (one step): W1, no empty bucket, wf_names, usages filed under their file, reverse entries well-formed and
/// the order-aware mirror all hold again after analyze_file, for a parsable and for an unparsable text
pub proof fn lemma_step_preserves_inv(s: IdxV, f: PV, t: Seq<char>)
    requires inv(s), ev_local(f, t)
    ensures inv(step(s, f, t))
{
    lemma_step_preserves_core(s, f, t);
    lemma_step_preserves_wf(s, f, t);
}
//@tags C06 C10
/// INVARIANT (all histories): from the empty index -- and from any state satisfying it -- every history keeps it
pub proof fn lemma_run_preserves_inv(s0: IdxV, es: Seq<Ev>)
    requires inv(s0), visitors_file_local()
    ensures inv(run(s0, es))
    decreases es.len()
{
    if es.len() > 0 {
        lemma_run_preserves_inv(s0, es.drop_last());
        assert(ev_local(es.last().0, es.last().1));
        lemma_step_preserves_inv(run(s0, es.drop_last()), es.last().0, es.last().1);
    }
}
pub proof fn lemma_run_preserves_w1(s0: IdxV, es: Seq<Ev>)
    requires w1(s0.defs, s0.fdefs), visitors_file_local()
    ensures w1(run(s0, es).defs, run(s0, es).fdefs)
    decreases es.len()
{
    if es.len() > 0 {
        lemma_run_preserves_w1(s0, es.drop_last());
        assert(ev_local(es.last().0, es.last().1));
        lemma_step_preserves_w1(run(s0, es.drop_last()), es.last().0, es.last().1);
    }
}
pub proof fn lemma_empty_inv()
    ensures inv(idx_empty())
{
    let e = idx_empty();
    assert forall|g: PV, n: Seq<char>| #[trigger] bucket(e.byfix, n).filter(pair_in_file(g)) == pairs_of(bucket(e.uses, g).filter(use_named(n))) by {
        lemma_filter_none(Seq::<(PV, UseV)>::empty(), pair_in_file(g));
        lemma_filter_none(Seq::<UseV>::empty(), use_named(n));
        assert(pairs_of(Seq::<UseV>::empty()) =~= Seq::<(PV, UseV)>::empty());
    }
}

// ---- per-file projections ------------------------------------------------------------------------------------------------
/// ONE step, file by file: the analysed file's four projections become those of the text, every other file's stay
pub proof fn lemma_step_proj(s: IdxV, f: PV, t: Seq<char>, g: PV, n: Seq<char>)
    requires w1(s.defs, s.fdefs), ev_local(f, t), parse_ok(t)
    ensures ({
        let r = step(s, f, t);
        &&& pdefs(r, g, n) == (if g == f { tdefs(f, Some(t), n) } else { pdefs(s, g, n) })
        &&& pnames(r, g) == (if g == f { tnames(f, Some(t)) } else { pnames(s, g) })
        &&& puses(r, g) == (if g == f { tuses(f, Some(t)) } else { puses(s, g) })
        &&& pbyfix(r, g, n) == (if g == f { tbyfix(f, Some(t), n) } else { pbyfix(s, g, n) })
    })
{
    let r = step(s, f, t);
    lemma_step_nf(s, f, t);
    // definitions
    let a = bucket(s.defs, n).filter(not_in_file(f));
    let b = vd(f, t).filter(named(n));
    assert(bucket(r.defs, n) == a + b);
    lemma_filter_add(a, b, in_file(g));
    lemma_sub_all_in_file(vd(f, t), named(n), f);
    if g == f {
        lemma_filter_disjoint(bucket(s.defs, n), not_in_file(f), in_file(f));
        lemma_filter_all(b, in_file(f));
        assert(Seq::<DefV>::empty() + b =~= b);
    } else {
        lemma_filter_implied(bucket(s.defs, n), not_in_file(f), in_file(g));
        lemma_filter_none(b, in_file(g));
        assert(a.filter(in_file(g)) + Seq::<DefV>::empty() =~= a.filter(in_file(g)));
    }
    // file_definitions, usages
    assert(sbucket(r.fdefs, g) == (if g == f { names_of(vd(f, t)) } else { sbucket(s.fdefs, g) }));
    assert(bucket(r.uses, g) == (if g == f { vu(f, t) } else { bucket(s.uses, g) }));
    // reverse index
    let a2 = bucket(s.byfix, n).filter(pair_not_in_file(f));
    let b2 = vu(f, t).filter(use_named(n));
    assert(bucket(r.byfix, n) == a2 + pairs_of(b2));
    lemma_filter_add(a2, pairs_of(b2), pair_in_file(g));
    lemma_sub_uses_in_file(vu(f, t), use_named(n), f);
    lemma_pairs_in_file(b2, f, g);
    if g == f {
        lemma_filter_disjoint(bucket(s.byfix, n), pair_not_in_file(f), pair_in_file(f));
        assert(Seq::<(PV, UseV)>::empty() + pairs_of(b2) =~= pairs_of(b2));
    } else {
        lemma_filter_implied(bucket(s.byfix, n), pair_not_in_file(f), pair_in_file(g));
        assert(a2.filter(pair_in_file(g)) + Seq::<(PV, UseV)>::empty() =~= a2.filter(pair_in_file(g)));
    }
}
//@tags C06 C10
/// HISTORY THEOREM (projections, any start state with W1): after ANY history the four projections of EVERY file g are
/// those of the LAST event of g whose text parsed -- and those of the start state when no event of g parsed
/// (independence: events of other files, and unparsable events of g itself, never touch g's entries)
pub proof fn lemma_history_proj(s0: IdxV, es: Seq<Ev>, g: PV, n: Seq<char>)
    requires w1(s0.defs, s0.fdefs), visitors_file_local()
    ensures ({
        let r = run(s0, es);
        let lv = last_valid(es, g);
        &&& pdefs(r, g, n) == (if lv is Some { tdefs(g, lv, n) } else { pdefs(s0, g, n) })
        &&& pnames(r, g) == (if lv is Some { tnames(g, lv) } else { pnames(s0, g) })
        &&& puses(r, g) == (if lv is Some { tuses(g, lv) } else { puses(s0, g) })
        &&& pbyfix(r, g, n) == (if lv is Some { tbyfix(g, lv, n) } else { pbyfix(s0, g, n) })
    })
    decreases es.len()
{
    if es.len() > 0 {
        let es0 = es.drop_last();
        let (f, t) = es.last();
        lemma_history_proj(s0, es0, g, n);
        if parse_ok(t) {
            lemma_run_preserves_w1(s0, es0);
            assert(ev_local(f, t));
            lemma_step_proj(run(s0, es0), f, t, g, n);
        }
    }
}

// ---- "agree outside file f" ------------------------------------------------------------------------------------------------
pub proof fn lemma_same_except_sym(a: IdxV, b: IdxV, f: PV)
    requires same_except(a, b, f)
    ensures same_except(b, a, f)
{
    assert forall|n: Seq<char>| #[trigger] bucket(b.defs, n).filter(not_in_file(f)) == bucket(a.defs, n).filter(not_in_file(f)) by {
        assert(bucket(a.defs, n).filter(not_in_file(f)) == bucket(b.defs, n).filter(not_in_file(f)));
    }
    assert forall|g: PV| g != f implies #[trigger] sbucket(b.fdefs, g) == sbucket(a.fdefs, g) by { assert(sbucket(a.fdefs, g) == sbucket(b.fdefs, g)); }
    assert forall|g: PV| g != f implies #[trigger] bucket(b.uses, g) == bucket(a.uses, g) by { assert(bucket(a.uses, g) == bucket(b.uses, g)); }
    assert forall|n: Seq<char>| #[trigger] bucket(b.byfix, n).filter(pair_not_in_file(f)) == bucket(a.byfix, n).filter(pair_not_in_file(f)) by {
        assert(bucket(a.byfix, n).filter(pair_not_in_file(f)) == bucket(b.byfix, n).filter(pair_not_in_file(f)));
    }
}
pub proof fn lemma_same_except_trans(a: IdxV, b: IdxV, c: IdxV, f: PV)
    requires same_except(a, b, f), same_except(b, c, f)
    ensures same_except(a, c, f)
{
    assert forall|n: Seq<char>| #[trigger] bucket(a.defs, n).filter(not_in_file(f)) == bucket(c.defs, n).filter(not_in_file(f)) by {
        assert(bucket(b.defs, n).filter(not_in_file(f)) == bucket(c.defs, n).filter(not_in_file(f)));
    }
    assert forall|g: PV| g != f implies #[trigger] sbucket(a.fdefs, g) == sbucket(c.fdefs, g) by { assert(sbucket(b.fdefs, g) == sbucket(c.fdefs, g)); }
    assert forall|g: PV| g != f implies #[trigger] bucket(a.uses, g) == bucket(c.uses, g) by { assert(bucket(b.uses, g) == bucket(c.uses, g)); }
    assert forall|n: Seq<char>| #[trigger] bucket(a.byfix, n).filter(pair_not_in_file(f)) == bucket(c.byfix, n).filter(pair_not_in_file(f)) by {
        assert(bucket(b.byfix, n).filter(pair_not_in_file(f)) == bucket(c.byfix, n).filter(pair_not_in_file(f)));
    }
}
/// an analysis of f changes nothing outside f
pub proof fn lemma_step_self(s: IdxV, f: PV, t: Seq<char>)
    requires w1(s.defs, s.fdefs), ev_local(f, t)
    ensures same_except(step(s, f, t), s, f)
{
    if parse_ok(t) {
        let r = step(s, f, t);
        lemma_step_nf(s, f, t);
        assert forall|n: Seq<char>| #[trigger] bucket(r.defs, n).filter(not_in_file(f)) == bucket(s.defs, n).filter(not_in_file(f)) by {
            let a = bucket(s.defs, n).filter(not_in_file(f));
            let b = vd(f, t).filter(named(n));
            assert(bucket(r.defs, n) == a + b);
            lemma_filter_add(a, b, not_in_file(f));
            lemma_filter_idem(bucket(s.defs, n), not_in_file(f));
            lemma_sub_all_in_file(vd(f, t), named(n), f);
            lemma_filter_none(b, not_in_file(f));
            assert(a + Seq::<DefV>::empty() =~= a);
        }
        assert forall|g: PV| g != f implies #[trigger] sbucket(r.fdefs, g) == sbucket(s.fdefs, g) by {}
        assert forall|g: PV| g != f implies #[trigger] bucket(r.uses, g) == bucket(s.uses, g) by {}
        assert forall|n: Seq<char>| #[trigger] bucket(r.byfix, n).filter(pair_not_in_file(f)) == bucket(s.byfix, n).filter(pair_not_in_file(f)) by {
            let a = bucket(s.byfix, n).filter(pair_not_in_file(f));
            let b = vu(f, t).filter(use_named(n));
            assert(bucket(r.byfix, n) == a + pairs_of(b));
            lemma_filter_add(a, pairs_of(b), pair_not_in_file(f));
            lemma_filter_idem(bucket(s.byfix, n), pair_not_in_file(f));
            lemma_sub_uses_in_file(vu(f, t), use_named(n), f);
            lemma_pairs_in_file(b, f, f);
            assert(a + Seq::<(PV, UseV)>::empty() =~= a);
        }
    }
}
/// neither does analyze_file_fresh (it leaves MORE of f behind, but nothing else differs)
pub proof fn lemma_fresh_self(s: IdxV, f: PV, t: Seq<char>)
    requires ev_local(f, t)
    ensures same_except(step_fresh(s, f, t), s, f)
{
    if parse_ok(t) {
        let r = step_fresh(s, f, t);
        lemma_fresh_nf(s, f, t);
        assert forall|n: Seq<char>| #[trigger] bucket(r.defs, n).filter(not_in_file(f)) == bucket(s.defs, n).filter(not_in_file(f)) by {
            let b = vd(f, t).filter(named(n));
            assert(bucket(r.defs, n) == bucket(s.defs, n) + b);
            lemma_filter_add(bucket(s.defs, n), b, not_in_file(f));
            lemma_sub_all_in_file(vd(f, t), named(n), f);
            lemma_filter_none(b, not_in_file(f));
            assert(bucket(s.defs, n).filter(not_in_file(f)) + Seq::<DefV>::empty() =~= bucket(s.defs, n).filter(not_in_file(f)));
        }
        assert forall|g: PV| g != f implies #[trigger] sbucket(r.fdefs, g) == sbucket(s.fdefs, g) by {}
        assert forall|g: PV| g != f implies #[trigger] bucket(r.uses, g) == bucket(s.uses, g) by {}
        assert forall|n: Seq<char>| #[trigger] bucket(r.byfix, n).filter(pair_not_in_file(f)) == bucket(s.byfix, n).filter(pair_not_in_file(f)) by {
            let a = bucket(s.byfix, n).filter(pair_not_in_file(f));
            let b = vu(f, t).filter(use_named(n));
            assert(bucket(r.byfix, n) == a + pairs_of(b));
            lemma_filter_add(a, pairs_of(b), pair_not_in_file(f));
            lemma_filter_idem(bucket(s.byfix, n), pair_not_in_file(f));
            lemma_sub_uses_in_file(vu(f, t), use_named(n), f);
            lemma_pairs_in_file(b, f, f);
            assert(a + Seq::<(PV, UseV)>::empty() =~= a);
        }
    }
}
/// INDEPENDENCE: an analysis of another file g keeps two states in agreement outside f
pub proof fn lemma_step_other(s: IdxV, s2: IdxV, f: PV, g: PV, t: Seq<char>)
    requires w1(s.defs, s.fdefs), w1(s2.defs, s2.fdefs), same_except(s, s2, f), g != f, ev_local(g, t)
    ensures same_except(step(s, g, t), step(s2, g, t), f)
{
    if parse_ok(t) {
        let r = step(s, g, t);
        let r2 = step(s2, g, t);
        lemma_step_nf(s, g, t);
        lemma_step_nf(s2, g, t);
        assert forall|n: Seq<char>| #[trigger] bucket(r.defs, n).filter(not_in_file(f)) == bucket(r2.defs, n).filter(not_in_file(f)) by {
            let b = vd(g, t).filter(named(n));
            assert(bucket(r.defs, n) == bucket(s.defs, n).filter(not_in_file(g)) + b);
            assert(bucket(r2.defs, n) == bucket(s2.defs, n).filter(not_in_file(g)) + b);
            lemma_filter_add(bucket(s.defs, n).filter(not_in_file(g)), b, not_in_file(f));
            lemma_filter_add(bucket(s2.defs, n).filter(not_in_file(g)), b, not_in_file(f));
            lemma_filter_commute(bucket(s.defs, n), not_in_file(g), not_in_file(f));
            lemma_filter_commute(bucket(s2.defs, n), not_in_file(g), not_in_file(f));
            assert(bucket(s.defs, n).filter(not_in_file(f)) == bucket(s2.defs, n).filter(not_in_file(f)));
        }
        assert forall|h: PV| h != f implies #[trigger] sbucket(r.fdefs, h) == sbucket(r2.fdefs, h) by {
            assert(sbucket(s.fdefs, h) == sbucket(s2.fdefs, h));
            assert(sbucket(r2.fdefs, h) == (if h == g { names_of(vd(g, t)) } else { sbucket(s2.fdefs, h) }));
        }
        assert forall|h: PV| h != f implies #[trigger] bucket(r.uses, h) == bucket(r2.uses, h) by {
            assert(bucket(s.uses, h) == bucket(s2.uses, h));
            assert(bucket(r2.uses, h) == (if h == g { vu(g, t) } else { bucket(s2.uses, h) }));
        }
        assert forall|n: Seq<char>| #[trigger] bucket(r.byfix, n).filter(pair_not_in_file(f)) == bucket(r2.byfix, n).filter(pair_not_in_file(f)) by {
            let b = pairs_of(vu(g, t).filter(use_named(n)));
            assert(bucket(r.byfix, n) == bucket(s.byfix, n).filter(pair_not_in_file(g)) + b);
            assert(bucket(r2.byfix, n) == bucket(s2.byfix, n).filter(pair_not_in_file(g)) + b);
            lemma_filter_add(bucket(s.byfix, n).filter(pair_not_in_file(g)), b, pair_not_in_file(f));
            lemma_filter_add(bucket(s2.byfix, n).filter(pair_not_in_file(g)), b, pair_not_in_file(f));
            lemma_filter_commute(bucket(s.byfix, n), pair_not_in_file(g), pair_not_in_file(f));
            lemma_filter_commute(bucket(s2.byfix, n), pair_not_in_file(g), pair_not_in_file(f));
            assert(bucket(s.byfix, n).filter(pair_not_in_file(f)) == bucket(s2.byfix, n).filter(pair_not_in_file(f)));
        }
    }
}
/// two states that agree outside f are IDENTICAL after an analysis of f with a parsable text (given W1 and no empty
/// bucket in both): whatever either held for f is gone
pub proof fn lemma_step_sync(s: IdxV, s2: IdxV, f: PV, t: Seq<char>)
    requires core(s), core(s2), same_except(s, s2, f), ev_local(f, t), parse_ok(t)
    ensures step(s, f, t) == step(s2, f, t)
{
    let r = step(s, f, t);
    let r2 = step(s2, f, t);
    lemma_step_nf(s, f, t);
    lemma_step_nf(s2, f, t);
    lemma_step_preserves_core(s, f, t);
    lemma_step_preserves_core(s2, f, t);
    assert forall|n: Seq<char>| #[trigger] bucket(r.defs, n) == bucket(r2.defs, n) by {
        assert(bucket(s.defs, n).filter(not_in_file(f)) == bucket(s2.defs, n).filter(not_in_file(f)));
        assert(bucket(r2.defs, n) == bucket(s2.defs, n).filter(not_in_file(f)) + vd(f, t).filter(named(n)));
    }
    lemma_seqmap_ext(r.defs, r2.defs);
    assert forall|g: PV| #[trigger] sbucket(r.fdefs, g) == sbucket(r2.fdefs, g) by {
        if g != f { assert(sbucket(s.fdefs, g) == sbucket(s2.fdefs, g)); }
        assert(sbucket(r2.fdefs, g) == (if g == f { names_of(vd(f, t)) } else { sbucket(s2.fdefs, g) }));
    }
    lemma_setmap_ext(r.fdefs, r2.fdefs);
    assert forall|g: PV| #[trigger] bucket(r.uses, g) == bucket(r2.uses, g) by {
        if g != f { assert(bucket(s.uses, g) == bucket(s2.uses, g)); }
        assert(bucket(r2.uses, g) == (if g == f { vu(f, t) } else { bucket(s2.uses, g) }));
    }
    lemma_seqmap_ext(r.uses, r2.uses);
    assert forall|n: Seq<char>| #[trigger] bucket(r.byfix, n) == bucket(r2.byfix, n) by {
        assert(bucket(s.byfix, n).filter(pair_not_in_file(f)) == bucket(s2.byfix, n).filter(pair_not_in_file(f)));
        assert(bucket(r2.byfix, n) == bucket(s2.byfix, n).filter(pair_not_in_file(f)) + pairs_of(vu(f, t).filter(use_named(n))));
    }
    lemma_seqmap_ext(r.byfix, r2.byfix);
}
pub proof fn lemma_run_preserves_core(s0: IdxV, es: Seq<Ev>)
    requires core(s0), visitors_file_local()
    ensures core(run(s0, es))
    decreases es.len()
{
    if es.len() > 0 {
        lemma_run_preserves_core(s0, es.drop_last());
        assert(ev_local(es.last().0, es.last().1));
        lemma_step_preserves_core(run(s0, es.drop_last()), es.last().0, es.last().1);
    }
}

// ---- the fresh server --------------------------------------------------------------------------------------------------------
/// dropping every event of f from a history changes nothing outside f
pub proof fn lemma_run_drop_file(s0: IdxV, xs: Seq<Ev>, f: PV)
    requires w1(s0.defs, s0.fdefs), visitors_file_local()
    ensures same_except(run(s0, xs.filter(ev_not_file(f))), run(s0, xs), f)
    decreases xs.len()
{
    reveal(Seq::filter);
    if xs.len() == 0 {
        assert(xs.filter(ev_not_file(f)) =~= Seq::<Ev>::empty());
        lemma_same_except_refl(s0, f);
    } else {
        let ys = xs.drop_last();
        let e = xs.last();
        lemma_run_drop_file(s0, ys, f);
        let a = run(s0, ys.filter(ev_not_file(f)));
        let b = run(s0, ys);
        lemma_run_preserves_w1(s0, ys.filter(ev_not_file(f)));
        lemma_run_preserves_w1(s0, ys);
        assert(ev_local(e.0, e.1));
        if e.0 != f {
            let zs = ys.filter(ev_not_file(f)).push(e);
            assert(xs.filter(ev_not_file(f)) == zs);
            assert(zs.drop_last() =~= ys.filter(ev_not_file(f)));
            assert(zs.last() == e);
            lemma_step_other(a, b, f, e.0, e.1);
        } else {
            assert(xs.filter(ev_not_file(f)) == ys.filter(ev_not_file(f)));
            lemma_step_self(b, f, e.1);
            lemma_same_except_sym(step(b, f, e.1), b, f);
            lemma_same_except_trans(a, b, step(b, f, e.1), f);
        }
    }
}
pub proof fn lemma_same_except_refl(a: IdxV, f: PV)
    ensures same_except(a, a, f)
{}
//@tags C06 C10
/// THEOREM (exact): ANY history leaves the index in EXACTLY the state (all four maps, bucket order included) of the
/// server that receives, from the same start state, only the LAST parsable event of every file, in the order in which
/// those events happened.  In particular the document changed last is analysed last on that fresh server.
pub proof fn theorem_C06_history_equals_fresh_in_edit_order(s0: IdxV, es: Seq<Ev>)
    requires core(s0), visitors_file_local()
    ensures run(s0, es) == run(s0, fresh(es))
    decreases es.len()
{
    if es.len() > 0 {
        let es0 = es.drop_last();
        let (f, t) = es.last();
        theorem_C06_history_equals_fresh_in_edit_order(s0, es0);
        if parse_ok(t) {
            let x = fresh(es0);
            let z = x.filter(ev_not_file(f)).push((f, t));
            assert(fresh(es) == z);
            assert(z.drop_last() =~= x.filter(ev_not_file(f)));
            assert(z.last() == (f, t));
            lemma_run_drop_file(s0, x, f);
            lemma_run_preserves_core(s0, x);
            lemma_run_preserves_core(s0, x.filter(ev_not_file(f)));
            assert(ev_local(f, t));
            lemma_step_sync(run(s0, x.filter(ev_not_file(f))), run(s0, x), f, t);
        }
    }
}
pub proof fn lemma_last_valid_drop_file(xs: Seq<Ev>, f: PV, g: PV)
    ensures
        g != f ==> last_valid(xs.filter(ev_not_file(f)), g) == last_valid(xs, g),
        last_valid(xs.filter(ev_not_file(f)), f) is None,
    decreases xs.len()
{
    reveal(Seq::filter);
    if xs.len() == 0 {
        assert(xs.filter(ev_not_file(f)) =~= Seq::<Ev>::empty());
    } else {
        let ys = xs.drop_last();
        let e = xs.last();
        lemma_last_valid_drop_file(ys, f, g);
        if e.0 != f {
            let zs = ys.filter(ev_not_file(f)).push(e);
            assert(xs.filter(ev_not_file(f)) == zs);
            assert(zs.drop_last() =~= ys.filter(ev_not_file(f)));
            assert(zs.last() == e);
        } else {
            assert(xs.filter(ev_not_file(f)) == ys.filter(ev_not_file(f)));
        }
    }
}
/// what fresh(es) is: every event in it parses, every file occurs at most once, and it leaves every file with the same
/// latest valid content as es
pub proof fn lemma_fresh_props(es: Seq<Ev>, g: PV)
    ensures
        last_valid(fresh(es), g) == last_valid(es, g),
        fresh(es).filter(ev_of_file(g)).len() <= 1,
        forall|i: int| 0 <= i < fresh(es).len() ==> parse_ok((#[trigger] fresh(es)[i]).1),
    decreases es.len()
{
    if es.len() == 0 {
        lemma_filter_none(Seq::<Ev>::empty(), ev_of_file(g));
    } else {
        let es0 = es.drop_last();
        let (f, t) = es.last();
        lemma_fresh_props(es0, g);
        if parse_ok(t) {
            let x = fresh(es0);
            let y = x.filter(ev_not_file(f));
            let z = y.push((f, t));
            assert(fresh(es) == z);
            assert(z.drop_last() =~= y);
            assert(z.last() == (f, t));
            lemma_last_valid_drop_file(x, f, g);
            lemma_filter_push(y, (f, t), ev_of_file(g));
            if g == f { lemma_filter_disjoint(x, ev_not_file(f), ev_of_file(f)); }
            else { lemma_filter_implied(x, ev_not_file(f), ev_of_file(g)); }
            assert forall|i: int| 0 <= i < z.len() implies parse_ok((#[trigger] z[i]).1) by {
                if i < y.len() { let j = lemma_filter_elem(x, ev_not_file(f), i); assert(z[i] == x[j]); }
            }
        }
    }
}

// ---- any other fresh server: same per-file content, buckets are permutations ---------------------------------------------
pub proof fn lemma_same_per_file_multiset(a: Seq<DefV>, b: Seq<DefV>)
    requires forall|f: PV| #[trigger] a.filter(in_file(f)) == b.filter(in_file(f))
    ensures a.to_multiset() =~= b.to_multiset(), a.len() == b.len()
{
    assert forall|x: DefV| a.to_multiset().count(x) == b.to_multiset().count(x) by {
        lemma_filter_count(a, in_file(x.file), x);
        lemma_filter_count(b, in_file(x.file), x);
        assert(a.filter(in_file(x.file)) == b.filter(in_file(x.file)));
    }
    lemma_multiset_by_count(a, b);
}
pub proof fn lemma_same_per_file_multiset_pairs(a: Seq<(PV, UseV)>, b: Seq<(PV, UseV)>)
    requires forall|f: PV| #[trigger] a.filter(pair_in_file(f)) == b.filter(pair_in_file(f))
    ensures a.to_multiset() =~= b.to_multiset(), a.len() == b.len()
{
    assert forall|x: (PV, UseV)| a.to_multiset().count(x) == b.to_multiset().count(x) by {
        lemma_filter_count(a, pair_in_file(x.0), x);
        lemma_filter_count(b, pair_in_file(x.0), x);
        assert(a.filter(pair_in_file(x.0)) == b.filter(pair_in_file(x.0)));
    }
    lemma_multiset_by_count(a, b);
}
//@tags C06 C10
/// THEOREM (projections, from the empty index): after ANY history the definitions of EVERY file g under EVERY name n
/// (in order), the names file_definitions lists for g, the usages of g (in order) and the reverse-index entries of g
/// under n (in order) are exactly what the visitors record for the latest syntactically valid content of g -- nothing
/// when no event of g ever parsed.  Nothing of a superseded version survives, nothing is there twice, an unparsable
/// version changes nothing, and no other file's events matter.
pub proof fn theorem_C06_index_is_latest_valid_text(es: Seq<Ev>, g: PV, n: Seq<char>)
    requires visitors_file_local()
    ensures ({
        let r = run(idx_empty(), es);
        &&& pdefs(r, g, n) == tdefs(g, last_valid(es, g), n)
        &&& pnames(r, g) == tnames(g, last_valid(es, g))
        &&& puses(r, g) == tuses(g, last_valid(es, g))
        &&& pbyfix(r, g, n) == tbyfix(g, last_valid(es, g), n)
    })
{
    lemma_history_proj(idx_empty(), es, g, n);
    lemma_filter_none(Seq::<DefV>::empty(), in_file(g));
    lemma_filter_none(Seq::<(PV, UseV)>::empty(), pair_in_file(g));
}
//@tags C06 C10
/// THEOREM (any fresh server): two histories that leave every file with the same latest valid content -- e.g. the real
/// history and ANY order in which a fresh server analyses those contents -- give
///   * identical file_definitions and usages maps,
///   * the same keys in definitions / usage_by_fixture, and under every name n buckets that hold, for every file g, the
///     same entries in the same order (same_per_file of unit resolver_core) and are permutations of each other.
/// What is NOT determined is the interleaving of DIFFERENT files' entries inside one bucket: it follows the order in
/// which the files were last analysed (canary_fresh_server_same_bucket_order).
pub proof fn theorem_C06_same_as_any_fresh_server(es1: Seq<Ev>, es2: Seq<Ev>, n: Seq<char>, g: PV)
    requires visitors_file_local(), same_latest(es1, es2)
    ensures ({
        let r1 = run(idx_empty(), es1);
        let r2 = run(idx_empty(), es2);
        &&& r1.fdefs == r2.fdefs
        &&& r1.uses == r2.uses
        &&& r1.defs.contains_key(n) == r2.defs.contains_key(n)
        &&& bucket(r1.defs, n).filter(in_file(g)) == bucket(r2.defs, n).filter(in_file(g))
        &&& bucket(r1.defs, n).to_multiset() == bucket(r2.defs, n).to_multiset()
        &&& r1.byfix.contains_key(n) == r2.byfix.contains_key(n)
        &&& bucket(r1.byfix, n).filter(pair_in_file(g)) == bucket(r2.byfix, n).filter(pair_in_file(g))
        &&& bucket(r1.byfix, n).to_multiset() == bucket(r2.byfix, n).to_multiset()
    })
{
    let r1 = run(idx_empty(), es1);
    let r2 = run(idx_empty(), es2);
    lemma_empty_inv();
    lemma_run_preserves_core(idx_empty(), es1);
    lemma_run_preserves_core(idx_empty(), es2);
    assert forall|h: PV| #[trigger] sbucket(r1.fdefs, h) == sbucket(r2.fdefs, h) by {
        theorem_C06_index_is_latest_valid_text(es1, h, n);
        theorem_C06_index_is_latest_valid_text(es2, h, n);
        assert(last_valid(es1, h) == last_valid(es2, h));
    }
    lemma_setmap_ext(r1.fdefs, r2.fdefs);
    assert forall|h: PV| #[trigger] bucket(r1.uses, h) == bucket(r2.uses, h) by {
        theorem_C06_index_is_latest_valid_text(es1, h, n);
        theorem_C06_index_is_latest_valid_text(es2, h, n);
        assert(last_valid(es1, h) == last_valid(es2, h));
    }
    lemma_seqmap_ext(r1.uses, r2.uses);
    assert forall|h: PV| #[trigger] bucket(r1.defs, n).filter(in_file(h)) == bucket(r2.defs, n).filter(in_file(h)) by {
        theorem_C06_index_is_latest_valid_text(es1, h, n);
        theorem_C06_index_is_latest_valid_text(es2, h, n);
        assert(last_valid(es1, h) == last_valid(es2, h));
    }
    lemma_same_per_file_multiset(bucket(r1.defs, n), bucket(r2.defs, n));
    assert forall|h: PV| #[trigger] bucket(r1.byfix, n).filter(pair_in_file(h)) == bucket(r2.byfix, n).filter(pair_in_file(h)) by {
        theorem_C06_index_is_latest_valid_text(es1, h, n);
        theorem_C06_index_is_latest_valid_text(es2, h, n);
        assert(last_valid(es1, h) == last_valid(es2, h));
    }
    lemma_same_per_file_multiset_pairs(bucket(r1.byfix, n), bucket(r2.byfix, n));
    assert(bucket(r1.defs, n).filter(in_file(g)) == bucket(r2.defs, n).filter(in_file(g)));
    assert(bucket(r1.byfix, n).filter(pair_in_file(g)) == bucket(r2.byfix, n).filter(pair_in_file(g)));
}

// ---- corollaries --------------------------------------------------------------------------------------------------------------
//@tags C06
/// NOTHING SUPERSEDED SURVIVES: every definition the index holds after a history is one the visitors record for the
/// latest valid content of ITS file (so a fixture removed or renamed there, or an old position, is gone)
pub proof fn lemma_C06_every_definition_is_of_latest_valid_text(es: Seq<Ev>, n: Seq<char>, i: int) -> (j: int)
    requires visitors_file_local(), run(idx_empty(), es).defs.contains_key(n), 0 <= i < run(idx_empty(), es).defs[n].len()
    ensures ({
        let d = run(idx_empty(), es).defs[n][i];
        &&& last_valid(es, d.file) is Some
        &&& 0 <= j < vd(d.file, last_valid(es, d.file)->0).len()
        &&& vd(d.file, last_valid(es, d.file)->0)[j] == d
    })
{
    let r = run(idx_empty(), es);
    let d = r.defs[n][i];
    theorem_C06_index_is_latest_valid_text(es, d.file, n);
    let k = lemma_filter_has(bucket(r.defs, n), in_file(d.file), i);
    assert(pdefs(r, d.file, n)[k] == d);
    let t = last_valid(es, d.file)->0;
    lemma_filter_elem(vd(d.file, t), named(n), k)
}
//@tags C06
/// ... and every usage, in the per-file list and in the reverse index
pub proof fn lemma_C06_every_usage_is_of_latest_valid_text(es: Seq<Ev>, g: PV, i: int)
    requires visitors_file_local(), run(idx_empty(), es).uses.contains_key(g), 0 <= i < run(idx_empty(), es).uses[g].len()
    ensures last_valid(es, g) is Some, run(idx_empty(), es).uses[g] == vu(g, last_valid(es, g)->0),
{
    theorem_C06_index_is_latest_valid_text(es, g, Seq::<char>::empty());
}
pub proof fn lemma_C06_every_reverse_entry_is_of_latest_valid_text(es: Seq<Ev>, n: Seq<char>, i: int) -> (j: int)
    requires visitors_file_local(), run(idx_empty(), es).byfix.contains_key(n), 0 <= i < run(idx_empty(), es).byfix[n].len()
    ensures ({
        let e = run(idx_empty(), es).byfix[n][i];
        &&& last_valid(es, e.0) is Some
        &&& 0 <= j < vu(e.0, last_valid(es, e.0)->0).len()
        &&& vu(e.0, last_valid(es, e.0)->0)[j] == e.1
    })
{
    let r = run(idx_empty(), es);
    let e = r.byfix[n][i];
    theorem_C06_index_is_latest_valid_text(es, e.0, n);
    let k = lemma_filter_has(bucket(r.byfix, n), pair_in_file(e.0), i);
    assert(pbyfix(r, e.0, n)[k] == e);
    let t = last_valid(es, e.0)->0;
    let us = vu(e.0, t).filter(use_named(n));
    assert(pairs_of(us)[k] == (us[k].file, us[k]));
    lemma_filter_elem(vu(e.0, t), use_named(n), k)
}
//@tags C06 C10
/// NOTHING IS DUPLICATED BY RE-ANALYSIS: the same notification twice in a row leaves exactly the state of sending it once
pub proof fn lemma_C06_repeated_event_is_idempotent(s: IdxV, f: PV, t: Seq<char>)
    requires core(s), ev_local(f, t)
    ensures step(step(s, f, t), f, t) == step(s, f, t)
{
    if parse_ok(t) {
        let s1 = step(s, f, t);
        lemma_step_preserves_core(s, f, t);
        lemma_step_self(s, f, t);
        lemma_step_sync(s1, s, f, t);
    }
}
//@tags C06
/// WHILE A DOCUMENT IS INVALID its last valid version stays in effect: an unparsable event changes neither the index nor
/// any file's latest valid content
pub proof fn lemma_C06_invalid_text_keeps_last_valid(s0: IdxV, es: Seq<Ev>, f: PV, t: Seq<char>, g: PV)
    requires !parse_ok(t)
    ensures run(s0, es.push((f, t))) == run(s0, es), last_valid(es.push((f, t)), g) == last_valid(es, g), fresh(es.push((f, t))) == fresh(es),
{
    let z = es.push((f, t));
    assert(z.drop_last() =~= es);
    assert(z.last() == (f, t));
}
//@tags C10
/// C10, last clause -- "one further change notification always restores the exact single-analysis state".
/// (a) EXACT STATE: two states with W1 and no empty bucket that agree outside f -- e.g. a clean state and the same state
///     POLLUTED with arbitrary extra / stale / duplicated entries of f (as long as file_definitions lists their names:
///     W1) -- are identical after analyze_file(f, t).
pub proof fn lemma_C10_one_more_change_restores(polluted: IdxV, clean: IdxV, f: PV, t: Seq<char>)
    requires core(polluted), core(clean), same_except(polluted, clean, f), ev_local(f, t), parse_ok(t)
    ensures step(polluted, f, t) == step(clean, f, t)
{
    lemma_step_sync(polluted, clean, f, t);
}
//@tags C10
/// (b) THE FILE'S ENTRIES, from W1 alone: whatever a state with W1 holds for f, after analyze_file(f, t) its entries are
///     exactly those of t (all four projections), and every other file's are untouched
pub proof fn lemma_C10_one_more_change_file_entries(polluted: IdxV, f: PV, t: Seq<char>, g: PV, n: Seq<char>)
    requires w1(polluted.defs, polluted.fdefs), ev_local(f, t), parse_ok(t)
    ensures ({
        let r = step(polluted, f, t);
        &&& pdefs(r, f, n) == tdefs(f, Some(t), n) && pnames(r, f) == tnames(f, Some(t)) && puses(r, f) == tuses(f, Some(t)) && pbyfix(r, f, n) == tbyfix(f, Some(t), n)
        &&& g != f ==> pdefs(r, g, n) == pdefs(polluted, g, n) && pnames(r, g) == pnames(polluted, g) && puses(r, g) == puses(polluted, g) && pbyfix(r, g, n) == pbyfix(polluted, g, n)
        &&& w1(r.defs, r.fdefs)
    })
{
    lemma_step_proj(polluted, f, t, f, n);
    lemma_step_proj(polluted, f, t, g, n);
    lemma_step_preserves_w1(polluted, f, t);
}
//@tags C10
/// (c) THE POLLUTION analyze_file_fresh causes (workspace scan re-analysing a file that is already indexed: the old
///     definitions of f stay next to the new ones) keeps W1 and the no-empty-bucket invariant and touches nothing outside f;
///     hence ONE further analyze_file(f, t) gives exactly the state a single analyze_file(f, t) gives without the scan
pub proof fn lemma_C10_scan_pollution_then_change_restores(s: IdxV, f: PV, t_scan: Seq<char>, t: Seq<char>, n: Seq<char>)
    requires core(s), ev_local(f, t_scan), ev_local(f, t), parse_ok(t)
    ensures
        step(step_fresh(s, f, t_scan), f, t) == step(s, f, t),
        parse_ok(t_scan) ==> pdefs(step_fresh(s, f, t_scan), f, n) == pdefs(s, f, n) + tdefs(f, Some(t_scan), n),
{
    let p = step_fresh(s, f, t_scan);
    lemma_fresh_preserves_core(s, f, t_scan);
    lemma_fresh_self(s, f, t_scan);
    lemma_step_sync(p, s, f, t);
    if parse_ok(t_scan) {
        lemma_fresh_nf(s, f, t_scan);
        let b = vd(f, t_scan).filter(named(n));
        assert(bucket(p.defs, n) == bucket(s.defs, n) + b);
        lemma_filter_add(bucket(s.defs, n), b, in_file(f));
        lemma_sub_all_in_file(vd(f, t_scan), named(n), f);
        lemma_filter_all(b, in_file(f));
    }
}
//@tags C06 C10
/// a "server started fresh" that indexes with the SCAN entry point: on a file that is not indexed yet analyze_file_fresh
/// and analyze_file coincide, so a scan that visits every file once is a history
pub proof fn lemma_fresh_is_step_when_unindexed(s: IdxV, f: PV, t: Seq<char>)
    requires !s.fdefs.contains_key(f)
    ensures step_fresh(s, f, t) == step(s, f, t)
{
    assert(clean_defs_names(s.defs, f, sbucket(s.fdefs, f)) =~= s.defs);
    assert(s.fdefs.remove(f) =~= s.fdefs);
}
pub proof fn lemma_scan_is_history(es: Seq<Ev>)
    requires visitors_file_local(), files_distinct(es)
    ensures run_fresh(idx_empty(), es) == run(idx_empty(), es)
    decreases es.len()
{
    if es.len() > 0 {
        let es0 = es.drop_last();
        let (f, t) = es.last();
        assert(files_distinct(es0));
        lemma_scan_is_history(es0);
        let r = run(idx_empty(), es0);
        lemma_no_event_no_valid(es0, f);
        theorem_C06_index_is_latest_valid_text(es0, f, Seq::<char>::empty());
        lemma_empty_inv();
        lemma_run_preserves_core(idx_empty(), es0);
        assert(sbucket(r.fdefs, f) == Set::<Seq<char>>::empty());
        lemma_fresh_is_step_when_unindexed(r, f, t);
    }
}
pub proof fn lemma_no_event_no_valid(es: Seq<Ev>, f: PV)
    requires forall|i: int| 0 <= i < es.len() ==> (#[trigger] es[i]).0 != f
    ensures last_valid(es, f) is None
    decreases es.len()
{
    if es.len() > 0 {
        assert(es[es.len() - 1].0 != f);
        lemma_no_event_no_valid(es.drop_last(), f);
    }
}
//@tags C06
/// NOTHING IS DUPLICATED: after any history every definition d occurs in the index (bucket of its name) exactly as often
/// as ONE analysis of the latest valid content of d's file records it (0 times when that file never parsed)
pub proof fn lemma_C06_multiplicity_is_single_analysis(es: Seq<Ev>, d: DefV)
    requires visitors_file_local()
    ensures bucket(run(idx_empty(), es).defs, d.name).to_multiset().count(d)
        == (match last_valid(es, d.file) { Some(t) => vd(d.file, t).to_multiset().count(d), None => 0 })
{
    let r = run(idx_empty(), es);
    theorem_C06_index_is_latest_valid_text(es, d.file, d.name);
    lemma_filter_count(bucket(r.defs, d.name), in_file(d.file), d);
    assert(pdefs(r, d.file, d.name).to_multiset().count(d) == bucket(r.defs, d.name).to_multiset().count(d));
    match last_valid(es, d.file) {
        Some(t) => {
            lemma_filter_count(vd(d.file, t), named(d.name), d);
            assert(pdefs(r, d.file, d.name) == vd(d.file, t).filter(named(d.name)));
        }
        None => {
            assert(pdefs(r, d.file, d.name) == Seq::<DefV>::empty());
            lemma_empty_count(d);
        }
    }
}
pub proof fn lemma_empty_count<A>(x: A)
    ensures Seq::<A>::empty().to_multiset().count(x) == 0
{
    broadcast use vstd::seq_lib::group_to_multiset_ensures;
    Seq::<A>::empty().to_multiset_ensures();
    if Seq::<A>::empty().to_multiset().count(x) > 0 { assert(Seq::<A>::empty().contains(x)); }
}
