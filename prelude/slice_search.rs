// ---------------------------------------------------------------------------------------------
// `<[T]>::binary_search` (trusted base A3): assumed specification, stated with vstd's meaning of `Ord`
// (vstd::std_specs::cmp::OrdSpec: `obeys_cmp_spec` / `cmp_spec`; for the integer types vstd defines them as the
// numeric order).  ASSUMED, for a STRICTLY INCREASING slice only (std: "If the slice is not sorted, the returned
// result is unspecified"):
//   Ok(i)  => i < len and s[i] compares Equal to x
//   Err(i) => i <= len, every element before i is Less than x and x is Less than every element from i on
//             (std: "the index where a matching element could be inserted while maintaining sorted order").
pub use vstd::std_specs::cmp::{OrdSpec, PartialOrdSpec};
pub open spec fn ord_lt<T: Ord>(a: T, b: T) -> bool { a.cmp_spec(&b) == core::cmp::Ordering::Less }
pub open spec fn strictly_sorted<T: Ord>(s: Seq<T>) -> bool {
    forall|i: int, j: int| 0 <= i < j < s.len() ==> ord_lt(#[trigger] s[i], #[trigger] s[j])
}
pub open spec fn binary_search_post<T: Ord>(s: Seq<T>, x: T, r: Result<usize, usize>) -> bool {
    match r {
        Ok(i) => i < s.len() && s[i as int].cmp_spec(&x) == core::cmp::Ordering::Equal,
        Err(i) => i <= s.len()
            && (forall|k: int| 0 <= k < i ==> ord_lt(#[trigger] s[k], x))
            && (forall|k: int| i <= k < s.len() ==> ord_lt(x, #[trigger] s[k])),
    }
}
pub assume_specification<T: Ord>[ <[T]>::binary_search ](s: &[T], x: &T) -> (r: Result<usize, usize>)
    ensures T::obeys_cmp_spec() && strictly_sorted(s@) ==> binary_search_post(s@, *x, r);
