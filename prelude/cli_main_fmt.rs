// ---- print / error stand-ins of handle_fixtures_unused / handle_fixtures_list that also carry WHEN they may be reached
// (added after the mutation sweep of DESIGN §10.1: negated path tests and a negated `format == "json"` verified).
// Each stand-in has the obligation of its plain counterpart in prelude/cli_main_shims.rs plus a ghost condition that the
// call site has to prove: JSON output only for --format json, text output only otherwise, "does not exist" only for a
// path that does not exist, "not a directory" only for an existing path that is not a directory.
#[verifier::external_body]
pub fn vp_print_json_f(json_output: &Vec<serde_json::Value>, Ghost(expected): Ghost<Seq<EntryV>>, Ghost(want_json): Ghost<bool>)
    requires serde_json::jvs(json_output@) == expected, want_json
{ }
#[verifier::external_body]
pub fn vp_print_header_f(n: usize, Ghost(expected): Ghost<nat>, Ghost(want_json): Ghost<bool>)
    requires n == expected, !want_json
{ }
#[verifier::external_body] pub fn vp_print_json_empty_f(Ghost(want_json): Ghost<bool>) requires want_json { }
#[verifier::external_body] pub fn vp_print_none_found_f(Ghost(want_json): Ghost<bool>) requires !want_json { }
#[verifier::external_body] pub fn vp_eprint_missing_f(p: &PathBuf) requires !fs_exists(pbv(p)) { }
#[verifier::external_body] pub fn vp_eprint_not_dir_f(p: &PathBuf) requires fs_exists(pbv(p)), !fs_is_dir(pbv(p)) { }
pub open spec fn wants_json(format: Seq<char>) -> bool { format == "json"@ }
