// ---------------------------------------------------------------------------------------------
// abstract views of the database used by the resolver-level contracts (needs fields definitions, file_cache)
impl FixtureDatabase {
    pub open spec fn defs(&self) -> Map<Seq<char>, Seq<DefV>> { defs_view(self.definitions.m()) }
    pub open spec fn text_dom(&self) -> Set<PV> { self.file_cache.m().dom() }
    /// conftest c "provides `name` through an import" as the resolver tests it
    pub open spec fn prov(&self, name: Seq<char>) -> spec_fn(PV) -> bool {
        |c: PV| (fs_exists(c) || self.text_dom().contains(c)) && imported_in(self.file_cache.m(), self.defs(), name, c)
    }

}

/// callee contract of imports.rs::is_fixture_imported_in_file (assumed here, owned by the imports unit):
/// an abstract function of the texts and the definitions
impl FixtureDatabase {
    #[verifier::external_body]
    pub fn is_fixture_imported_in_file(&self, fixture_name: &str, file_path: &Path) -> (r: bool)
        ensures r == imported_in(self.file_cache.m(), self.defs(), fixture_name@, pv(file_path))
    { unimplemented!() }
}
