// ---------------------------------------------------------------------------------------------
// Operational specification of the undeclared-fixture scanner of src/fixtures/undeclared.rs (property C17):
// WHICH names of a function body are flagged, in which order, with which fields -- as functions of the real
// rustpython AST.  Mirrors exactly which sub-expressions / statements the scanner visits.
// Needs: build/astspec.rs, prelude/ast_spec.rs (target_names / targets_from / alias_bound), prelude/line_spec.rs + bytes.rs,
// prelude/visit_spec.rs (vline / vcol / r_start / r_end / AExprName), prelude/types.rs + dbview.rs (DefV, bucket),
// prelude/undecl_avail_spec.rs (op_is_available); the unit declares `ExUndeclaredFixture`.
pub type AWithItem = rustpython_parser::ast::WithItem;

// ---- views ---------------------------------------------------------------------------------------------------
/// one undeclared-fixture finding, every field
pub struct UndV { pub name: Seq<char>, pub file: PV, pub line: usize, pub start_char: usize, pub end_char: usize,
                  pub function_name: Seq<char>, pub function_line: usize }
pub open spec fn undv(u: &UndeclaredFixture) -> UndV {
    UndV { name: u.name@, file: pbv(&u.file_path), line: u.line, start_char: u.start_char, end_char: u.end_char,
           function_name: u.function_name@, function_line: u.function_line }
}
pub open spec fn undvs(s: Seq<UndeclaredFixture>) -> Seq<UndV> { s.map_values(|u: UndeclaredFixture| undv(&u)) }
pub open spec fn undecl_view(m: Map<PV, Vec<UndeclaredFixture>>) -> Map<PV, Seq<UndV>> {
    m.map_values(|v: Vec<UndeclaredFixture>| undvs(v@))
}
/// effect of pushing the findings `us` (in order) onto the list filed under `f`: nothing at all when there is none
/// (the key is only created by the first push)
pub open spec fn push_undecl(m: Map<PV, Seq<UndV>>, f: PV, us: Seq<UndV>) -> Map<PV, Seq<UndV>> {
    if us.len() == 0 { m } else { m.insert(f, bucket(m, f) + us) }
}
/// what a scan reads: BodyScanContext + the definitions index (through is_available_fixture)
pub struct ScanV { pub file: PV, pub li: Seq<usize>, pub declared: Set<Seq<char>>, pub locals: Map<Seq<char>, usize>,
                   pub fname: Seq<char>, pub fline: usize, pub defs: Map<Seq<char>, Seq<DefV>> }

// ---- one name ------------------------------------------------------------------------------------------------
/// "local variable in scope": recorded in local_vars with a line STRICTLY before the line of the use
pub open spec fn local_in_scope(locals: Map<Seq<char>, usize>, nm: Seq<char>, line: usize) -> bool {
    locals.contains_key(nm) && locals[nm] < line
}
/// the three conditions under which a Name expression is flagged
pub open spec fn name_flag(n: AExprName, c: ScanV) -> bool {
    &&& !c.declared.contains(idv(&n.id))
    &&& !local_in_scope(c.locals, idv(&n.id), vline(c.li, r_start(n.range)))
    &&& op_is_available(bucket(c.defs, idv(&n.id)), c.file)
}
/// the finding recorded for it: position = (line of range.start, column of range.start, column of range.end)
pub open spec fn name_entry(n: AExprName, c: ScanV) -> UndV {
    UndV { name: idv(&n.id), file: c.file, line: vline(c.li, r_start(n.range)),
           start_char: vcol(c.li, r_start(n.range)), end_char: vcol(c.li, r_end(n.range)),
           function_name: c.fname, function_line: c.fline }
}

// ---- expressions ---------------------------------------------------------------------------------------------
pub type AKeyword = rustpython_parser::ast::Keyword;
pub type AHandler = rustpython_parser::ast::ExceptHandler;
pub type AAlias = rustpython_parser::ast::Alias;
/// findings of visit_expr_for_names(e), in recording order.  Visited: Name; Call (func, positional args, then the
/// VALUES of the keyword arguments); Starred (value); BoolOp (values); IfExp (test, body, orelse); Set / List / Tuple
/// elements; Slice (lower, upper, step); Attribute (value); BinOp (left, right); UnaryOp; Compare (left,
/// comparators); Subscript (value, slice); Dict (the keys that are present, then ALL values); Await.  Every other
/// expression form (walrus, lambda, comprehensions, generator expressions, yield, f-strings, constants) records
/// nothing and is not descended into.
pub open spec fn scan_expr(e: Expr, c: ScanV) -> Seq<UndV>
    decreases e, 0int
{
    match e {
        Expr::Name(n) => if name_flag(n, c) { seq![name_entry(n, c)] } else { Seq::empty() },
        Expr::Call(x) => scan_expr(*x.func, c) + scan_exprs(x.args@, x.args@.len() as int, c) + scan_kws(x.keywords@, x.keywords@.len() as int, c),
        Expr::Starred(x) => scan_expr(*x.value, c),
        Expr::BoolOp(x) => scan_exprs(x.values@, x.values@.len() as int, c),
        Expr::IfExp(x) => scan_expr(*x.test, c) + scan_expr(*x.body, c) + scan_expr(*x.orelse, c),
        Expr::Set(x) => scan_exprs(x.elts@, x.elts@.len() as int, c),
        Expr::Slice(x) => (match x.lower { Some(b) => scan_expr(*b, c), None => Seq::empty() })
            + (match x.upper { Some(b) => scan_expr(*b, c), None => Seq::empty() })
            + (match x.step { Some(b) => scan_expr(*b, c), None => Seq::empty() }),
        Expr::Attribute(x) => scan_expr(*x.value, c),
        Expr::BinOp(x) => scan_expr(*x.left, c) + scan_expr(*x.right, c),
        Expr::UnaryOp(x) => scan_expr(*x.operand, c),
        Expr::Compare(x) => scan_expr(*x.left, c) + scan_exprs(x.comparators@, x.comparators@.len() as int, c),
        Expr::Subscript(x) => scan_expr(*x.value, c) + scan_expr(*x.slice, c),
        Expr::List(x) => scan_exprs(x.elts@, x.elts@.len() as int, c),
        Expr::Tuple(x) => scan_exprs(x.elts@, x.elts@.len() as int, c),
        Expr::Dict(x) => scan_keys(x.keys@, x.keys@.len() as int, c) + scan_exprs(x.values@, x.values@.len() as int, c),
        Expr::Await(x) => scan_expr(*x.value, c),
        _ => Seq::empty(),
    }
}
/// the first n expressions of a list, in order
pub open spec fn scan_exprs(es: Seq<Expr>, n: int, c: ScanV) -> Seq<UndV>
    decreases es, n
{
    if n <= 0 || n > es.len() { Seq::empty() } else { scan_exprs(es, n - 1, c) + scan_expr(es[n - 1], c) }
}
/// the VALUES of the first n keyword arguments (`f(x=v)`, `f(**v)`)
pub open spec fn scan_kws(ks: Seq<AKeyword>, n: int, c: ScanV) -> Seq<UndV>
    decreases ks, n
{
    if n <= 0 || n > ks.len() { Seq::empty() } else { scan_kws(ks, n - 1, c) + scan_expr(ks[n - 1].value, c) }
}
/// the first n dict keys (`None` = a `**mapping` entry: no key expression)
pub open spec fn scan_keys(ks: Seq<Option<Expr>>, n: int, c: ScanV) -> Seq<UndV>
    decreases ks, n
{
    if n <= 0 || n > ks.len() { Seq::empty() } else {
        scan_keys(ks, n - 1, c) + (match ks[n - 1] { Some(k) => scan_expr(k, c), None => Seq::empty() })
    }
}
pub open spec fn scan_opt(o: Option<Box<Expr>>, c: ScanV) -> Seq<UndV> {
    match o { Some(b) => scan_expr(*b, c), None => Seq::empty() }
}
/// the context expressions of the first n `with` items (NOT their `as` targets)
pub open spec fn scan_items(items: Seq<AWithItem>, n: int, c: ScanV) -> Seq<UndV>
    decreases n
{
    if n <= 0 || n > items.len() { Seq::empty() } else { scan_items(items, n - 1, c) + scan_expr(items[n - 1].context_expr, c) }
}

// ---- statements ----------------------------------------------------------------------------------------------
/// findings of visit_stmt_for_names(s).  Visited: Expr; Assign / AugAssign / AnnAssign (VALUE only); Raise (exc,
/// cause); Return; Try (body, the BODIES of the handlers, orelse, finalbody -- not the handlers' type expressions);
/// If (test, body, orelse); While (test, body, orelse); For / AsyncFor (iter, body, orelse -- NOT target); With /
/// AsyncWith (context expressions, body -- NOT the `as` targets); Assert (test, msg).  Every other statement (nested
/// def / class, del, match, try*, imports, global ...) records nothing.
pub open spec fn scan_stmt(s: Stmt, c: ScanV) -> Seq<UndV>
    decreases s, 0int
{
    match s {
        Stmt::Expr(x) => scan_expr(*x.value, c),
        Stmt::Assign(x) => scan_expr(*x.value, c),
        Stmt::AugAssign(x) => scan_expr(*x.value, c),
        Stmt::AnnAssign(x) => scan_opt(x.value, c),
        Stmt::Raise(x) => scan_opt(x.exc, c) + scan_opt(x.cause, c),
        Stmt::Try(x) => scan_body(x.body@, x.body@.len() as int, c) + scan_handlers(x.handlers@, x.handlers@.len() as int, c)
            + scan_body(x.orelse@, x.orelse@.len() as int, c) + scan_body(x.finalbody@, x.finalbody@.len() as int, c),
        Stmt::Return(x) => scan_opt(x.value, c),
        Stmt::If(x) => scan_expr(*x.test, c) + scan_body(x.body@, x.body@.len() as int, c) + scan_body(x.orelse@, x.orelse@.len() as int, c),
        Stmt::While(x) => scan_expr(*x.test, c) + scan_body(x.body@, x.body@.len() as int, c) + scan_body(x.orelse@, x.orelse@.len() as int, c),
        Stmt::For(x) => scan_expr(*x.iter, c) + scan_body(x.body@, x.body@.len() as int, c) + scan_body(x.orelse@, x.orelse@.len() as int, c),
        Stmt::With(x) => scan_items(x.items@, x.items@.len() as int, c) + scan_body(x.body@, x.body@.len() as int, c),
        Stmt::AsyncFor(x) => scan_expr(*x.iter, c) + scan_body(x.body@, x.body@.len() as int, c) + scan_body(x.orelse@, x.orelse@.len() as int, c),
        Stmt::AsyncWith(x) => scan_items(x.items@, x.items@.len() as int, c) + scan_body(x.body@, x.body@.len() as int, c),
        Stmt::Assert(x) => scan_expr(*x.test, c) + scan_opt(x.msg, c),
        _ => Seq::empty(),
    }
}
pub open spec fn scan_body(b: Seq<Stmt>, n: int, c: ScanV) -> Seq<UndV>
    decreases b, n
{
    if n <= 0 || n > b.len() { Seq::empty() } else { scan_body(b, n - 1, c) + scan_stmt(b[n - 1], c) }
}
/// the bodies of the first n except handlers
pub open spec fn scan_handlers(hs: Seq<AHandler>, n: int, c: ScanV) -> Seq<UndV>
    decreases hs, n
{
    if n <= 0 || n > hs.len() { Seq::empty() } else {
        match hs[n - 1] { rustpython_parser::ast::ExceptHandler::ExceptHandler(h) => scan_handlers(hs, n - 1, c) + scan_body(h.body@, h.body@.len() as int, c) }
    }
}

// ---- local variables -----------------------------------------------------------------------------------------
/// every name of `names` is (re)bound to `line`; other entries keep their value (the `imports` loop: plain insert)
pub open spec fn bind_all(m: Map<Seq<char>, usize>, names: Set<Seq<char>>, line: usize) -> Map<Seq<char>, usize> {
    Map::new(m.dom().union(names), |k: Seq<char>| if names.contains(k) { line } else { m[k] })
}
/// bind_local: ONE binding of k at `line` -- the EARLIEST line on which a name is bound is kept
pub open spec fn min_bind(m: Map<Seq<char>, usize>, k: Seq<char>, line: usize) -> Map<Seq<char>, usize> {
    if m.contains_key(k) && m[k] <= line { m } else { m.insert(k, line) }
}
/// bind_local for every name of `names` (any order: the result does not depend on it)
pub open spec fn bind_min(m: Map<Seq<char>, usize>, names: Set<Seq<char>>, line: usize) -> Map<Seq<char>, usize> {
    Map::new(m.dom().union(names), |k: Seq<char>| if names.contains(k) && !(m.contains_key(k) && m[k] <= line) { line } else { m[k] })
}
/// the `as` targets of the first n `with` items, all bound at the line of the `with` statement
pub open spec fn with_bind(items: Seq<AWithItem>, n: int, m: Map<Seq<char>, usize>, line: usize) -> Map<Seq<char>, usize>
    decreases n
{
    if n <= 0 || n > items.len() { m } else {
        match items[n - 1].optional_vars {
            Some(v) => bind_min(with_bind(items, n - 1, m, line), target_names(*v), line),
            None => with_bind(items, n - 1, m, line),
        }
    }
}
/// `alias.name.split('.').next().unwrap_or("")`: the text before the first '.' (string code: left abstract)
pub uninterp spec fn dotted_head(name: Seq<char>) -> Seq<char>;
/// what `import a.b [as c]` binds: c, else the first dotted component a
pub open spec fn import_bound(a: AAlias) -> Seq<char> { match a.asname { Some(n) => idv(&n), None => dotted_head(idv(&a.name)) } }
/// the names the first n aliases of an import statement bind (dotted: `import ..`, else `from .. import ..`: asname,
/// else the name itself = prelude/ast_spec.rs alias_bound), all at the line of the statement
pub open spec fn alias_name(a: AAlias, dotted: bool) -> Seq<char> { if dotted { import_bound(a) } else { alias_bound(a) } }
pub open spec fn import_bind(names: Seq<AAlias>, n: int, dotted: bool, m: Map<Seq<char>, usize>, line: usize) -> Map<Seq<char>, usize>
    decreases n
{
    if n <= 0 || n > names.len() { m } else { min_bind(import_bind(names, n - 1, dotted, m, line), alias_name(names[n - 1], dotted), line) }
}
/// collect_local_variables, one statement: every binder records its names (prelude/ast_spec.rs target_names: Name, or
/// the elements of tuple / list targets, recursively) at the line of the STATEMENT'S START through bind_local -- the
/// EARLIEST line per name is kept.  Binders: Assign, AnnAssign, AugAssign, For / AsyncFor (target), With / AsyncWith
/// (`as` targets), `except .. as name` (line of the handler), import / from-import (asname, else first dotted
/// component / name), nested def / async def / class (their name).  Descended into: For / AsyncFor / While body +
/// orelse, If body + orelse, With / AsyncWith body, Try body + handler bodies + orelse + finalbody.  NOT recorded:
/// walrus, match captures, try*, del, global / nonlocal; nested def / class BODIES are not descended into.
pub open spec fn locals_stmt(s: Stmt, li: Seq<usize>, m: Map<Seq<char>, usize>) -> Map<Seq<char>, usize>
    decreases s, 0int
{
    match s {
        Stmt::Assign(x) => bind_min(m, targets_from(x.targets@, 0), vline(li, r_start(x.range))),
        Stmt::AnnAssign(x) => bind_min(m, target_names(*x.target), vline(li, r_start(x.range))),
        Stmt::AugAssign(x) => bind_min(m, target_names(*x.target), vline(li, r_start(x.range))),
        Stmt::For(x) => locals_body(x.orelse@, x.orelse@.len() as int, li,
                            locals_body(x.body@, x.body@.len() as int, li, bind_min(m, target_names(*x.target), vline(li, r_start(x.range))))),
        Stmt::AsyncFor(x) => locals_body(x.orelse@, x.orelse@.len() as int, li,
                            locals_body(x.body@, x.body@.len() as int, li, bind_min(m, target_names(*x.target), vline(li, r_start(x.range))))),
        Stmt::While(x) => locals_body(x.orelse@, x.orelse@.len() as int, li, locals_body(x.body@, x.body@.len() as int, li, m)),
        Stmt::If(x) => locals_body(x.orelse@, x.orelse@.len() as int, li, locals_body(x.body@, x.body@.len() as int, li, m)),
        Stmt::With(x) => locals_body(x.body@, x.body@.len() as int, li, with_bind(x.items@, x.items@.len() as int, m, vline(li, r_start(x.range)))),
        Stmt::AsyncWith(x) => locals_body(x.body@, x.body@.len() as int, li, with_bind(x.items@, x.items@.len() as int, m, vline(li, r_start(x.range)))),
        Stmt::Try(x) => locals_body(x.finalbody@, x.finalbody@.len() as int, li,
                            locals_body(x.orelse@, x.orelse@.len() as int, li,
                                locals_handlers(x.handlers@, x.handlers@.len() as int, li, locals_body(x.body@, x.body@.len() as int, li, m)))),
        Stmt::Import(x) => import_bind(x.names@, x.names@.len() as int, true, m, vline(li, r_start(x.range))),
        Stmt::ImportFrom(x) => import_bind(x.names@, x.names@.len() as int, false, m, vline(li, r_start(x.range))),
        Stmt::FunctionDef(x) => min_bind(m, idv(&x.name), vline(li, r_start(x.range))),
        Stmt::AsyncFunctionDef(x) => min_bind(m, idv(&x.name), vline(li, r_start(x.range))),
        Stmt::ClassDef(x) => min_bind(m, idv(&x.name), vline(li, r_start(x.range))),
        _ => m,
    }
}
pub open spec fn locals_body(b: Seq<Stmt>, n: int, li: Seq<usize>, m: Map<Seq<char>, usize>) -> Map<Seq<char>, usize>
    decreases b, n
{
    if n <= 0 || n > b.len() { m } else { locals_stmt(b[n - 1], li, locals_body(b, n - 1, li, m)) }
}
/// the first n except handlers: `as name` (if any) at the handler's line, then the handler's body
pub open spec fn handler_name_bind(nm: Option<Identifier>, m: Map<Seq<char>, usize>, line: usize) -> Map<Seq<char>, usize> {
    match nm { Some(i) => min_bind(m, idv(&i), line), None => m }
}
pub open spec fn locals_handlers(hs: Seq<AHandler>, n: int, li: Seq<usize>, m: Map<Seq<char>, usize>) -> Map<Seq<char>, usize>
    decreases hs, n
{
    if n <= 0 || n > hs.len() { m } else {
        match hs[n - 1] {
            rustpython_parser::ast::ExceptHandler::ExceptHandler(h) =>
                locals_body(h.body@, h.body@.len() as int, li, handler_name_bind(h.name, locals_handlers(hs, n - 1, li, m), vline(li, r_start(h.range)))),
        }
    }
}

// ---- a whole function ----------------------------------------------------------------------------------------
/// the local_vars map scan_function_body_for_undeclared_fixtures builds: the body's bindings, then EVERY name of
/// `imps` (= the `imports` entry of the file: its module-level names) bound to line 0 -- overriding a local line
pub open spec fn fn_locals(body: Seq<Stmt>, li: Seq<usize>, imps: Set<Seq<char>>) -> Map<Seq<char>, usize> {
    bind_all(locals_body(body, body.len() as int, li, Map::empty()), imps, 0)
}
/// the `imports` entry of a file as a set of names (absent = none)
pub open spec fn imps_of(m: Map<PV, HashSet<String>>, f: PV) -> Set<Seq<char>> {
    if m.contains_key(f) { m[f].s() } else { Set::empty() }
}
pub open spec fn fn_ctx(body: Seq<Stmt>, file: PV, li: Seq<usize>, declared: Set<Seq<char>>, fname: Seq<char>, fline: usize,
                       defs: Map<Seq<char>, Seq<DefV>>, imps: Set<Seq<char>>) -> ScanV {
    ScanV { file, li, declared, locals: fn_locals(body, li, imps), fname, fline, defs }
}
/// findings of scan_function_body_for_undeclared_fixtures, in recording order
pub open spec fn scan_fn(body: Seq<Stmt>, file: PV, li: Seq<usize>, declared: Set<Seq<char>>, fname: Seq<char>, fline: usize,
                        defs: Map<Seq<char>, Seq<DefV>>, imps: Set<Seq<char>>) -> Seq<UndV> {
    scan_body(body, body.len() as int, fn_ctx(body, file, li, declared, fname, fline, defs, imps))
}

// ---- helper lemmas for the L1 proofs -------------------------------------------------------------------------
pub proof fn lemma_push_undecl_concat(m: Map<PV, Seq<UndV>>, f: PV, a: Seq<UndV>, b: Seq<UndV>)
    ensures push_undecl(push_undecl(m, f, a), f, b) == push_undecl(m, f, a + b)
{
    if a.len() == 0 { assert(a + b =~= b); }
    else if b.len() == 0 { assert(a + b =~= a); }
    else {
        assert((bucket(m, f) + a) + b =~= bucket(m, f) + (a + b));
        assert(m.insert(f, bucket(m, f) + a).insert(f, (bucket(m, f) + a) + b) =~= m.insert(f, bucket(m, f) + (a + b)));
    }
}
pub proof fn lemma_bind_all_insert(m: Map<Seq<char>, usize>, ps: Set<Seq<char>>, k: Seq<char>, line: usize)
    ensures bind_all(m, ps, line).insert(k, line) == bind_all(m, ps.insert(k), line)
{
    assert(bind_all(m, ps, line).insert(k, line) =~= bind_all(m, ps.insert(k), line));
}
pub proof fn lemma_bind_min_step(m: Map<Seq<char>, usize>, ps: Set<Seq<char>>, k: Seq<char>, line: usize)
    ensures min_bind(bind_min(m, ps, line), k, line) == bind_min(m, ps.insert(k), line)
{
    assert(min_bind(bind_min(m, ps, line), k, line) =~= bind_min(m, ps.insert(k), line));
}
pub proof fn lemma_bind_min_empty(m: Map<Seq<char>, usize>, line: usize)
    ensures bind_min(m, Set::empty(), line) == m
{
    assert(bind_min(m, Set::empty(), line) =~= m);
}
pub proof fn lemma_bind_all_empty(m: Map<Seq<char>, usize>, line: usize)
    ensures bind_all(m, Set::empty(), line) == m
{
    assert(bind_all(m, Set::empty(), line) =~= m);
}
