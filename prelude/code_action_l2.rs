// ---------------------------------------------------------------------------------------------
// L2 for textDocument/codeAction (C17 quick fix), over prelude/code_action_spec.rs.

//@tags C17 C15
/// C17 — the quick fix offered for an undeclared-fixture finding u edits the function that CONTAINS the usage: exactly
/// one text edit, in the requested document, an EMPTY range (pure insertion) on protocol line u.function_line - 1 (the
/// line recorded as the enclosing function's `def` line), inserting the fixture's name (prefixed ", " when the
/// signature already has parameters — string tests uninterpreted); it is marked preferred, carries the diagnostic it
/// answers and touches nothing else (no document_changes, no command)
pub proof fn lemma_C17_quick_fix_edits_the_enclosing_function(uri: Uri, t: Seq<char>, u: UndeclV, dg: DiagV)
    requires action_for(uri, t, u, dg) is Some, 1 <= u.function_line, line_fits(u.function_line)
    ensures ({
        let a = action_for(uri, t, u, dg)->0;
        let l = lines_of(t)[u.function_line - 1];
        &&& a.changes is Some && (a.changes->0).len() == 1 && (a.changes->0)[0].0 == uri && (a.changes->0)[0].1.len() == 1
        &&& ((a.changes->0)[0].1)[0].range.start == ((a.changes->0)[0].1)[0].range.end
        &&& ((a.changes->0)[0].1)[0].range.start.line as int == u.function_line - 1
        &&& (((a.changes->0)[0].1)[0].new_text == u.name || ((a.changes->0)[0].1)[0].new_text == fmt_comma_name(u.name))
        &&& insertion(l, u.name) is Some && ((a.changes->0)[0].1)[0].range.start.character == (insertion(l, u.name)->0).0 as u32
        &&& a.title == fmt_action_title(u.name) && a.kind == Some(kind_quickfix()) && a.diags == Some(seq![dg])
        &&& a.is_preferred == Some(true) && a.other_edit_fields_none && a.command_none
    })
{}
//@tags C17
/// which diagnostics get a quick fix: only those whose code is the STRING "undeclared-fixture" and at whose START
/// position (line, character) a recorded undeclared finding of the file starts — the first such finding; at most
/// one action per diagnostic, in the order of the request
pub proof fn lemma_C17_action_only_for_matching_undeclared_diagnostic(uri: Uri, content: Option<Seq<char>>, us: Seq<UndeclV>, dg: DiagV)
    requires action_of_diag(uri, content, us, dg) is Some
    ensures dg.code == Some(code_undeclared()), content is Some,
        first_undecl(us, und_at(dg.range.start.line as int + 1, dg.range.start.character as int)) is Some,
        action_of_diag(uri, content, us, dg) == action_for(uri, content->0,
            first_undecl(us, und_at(dg.range.start.line as int + 1, dg.range.start.character as int))->0, dg),
{}
pub proof fn lemma_first_undecl_sound(us: Seq<UndeclV>, p: spec_fn(UndeclV) -> bool)
    ensures match first_undecl(us, p) { Some(u) => us.contains(u) && p(u), None => true }
    decreases us.len()
{
    if us.len() > 0 && !p(us[0]) {
        lemma_first_undecl_sound(us.drop_first(), p);
        match first_undecl(us.drop_first(), p) {
            Some(u) => { let k = choose|k: int| 0 <= k < us.drop_first().len() && us.drop_first()[k] == u; assert(us[k + 1] == u); }
            None => {}
        }
    } else if us.len() > 0 { assert(us[0] == us[0]); }
}
//@tags C17
/// the finding a quick fix works for is one RECORDED for the file, on the diagnostic's line, starting at its column
pub proof fn lemma_C17_action_finding_is_recorded(us: Seq<UndeclV>, line: u32, ch: u32)
    ensures match first_undecl(us, und_at(line as int + 1, ch as int)) {
        Some(u) => us.contains(u) && u.line == line as int + 1 && u.start_char == ch as int, None => true }
{
    lemma_first_undecl_sound(us, und_at(line as int + 1, ch as int));
}
pub proof fn lemma_actions_len(uri: Uri, content: Option<Seq<char>>, us: Seq<UndeclV>, dgs: Seq<DiagV>)
    ensures actions_of(uri, content, us, dgs).len() <= dgs.len()
    decreases dgs.len()
{
    if dgs.len() > 0 { lemma_actions_len(uri, content, us, dgs.drop_last()); }
}

// ---- vacuity guards: each of these must FAIL -------------------------------------------------------------------
/// the edit goes on the line of the USAGE (it goes on the enclosing function's def line)
proof fn canary_quick_fix_edits_usage_line(uri: Uri, t: Seq<char>, u: UndeclV, dg: DiagV)
    requires action_for(uri, t, u, dg) is Some, 1 <= u.function_line, line_fits(u.function_line), 1 <= u.line, line_fits(u.line)
    ensures (((action_for(uri, t, u, dg)->0).changes->0)[0].1)[0].range.start.line as int == u.line - 1
{}
/// every diagnostic of the request gets an action
proof fn canary_action_for_every_diagnostic(uri: Uri, content: Option<Seq<char>>, us: Seq<UndeclV>, dgs: Seq<DiagV>)
    ensures actions_of(uri, content, us, dgs).len() == dgs.len()
{
    lemma_actions_len(uri, content, us, dgs);
}
/// a scope-mismatch diagnostic gets the quick fix too
proof fn canary_action_for_other_codes(uri: Uri, content: Option<Seq<char>>, us: Seq<UndeclV>, dg: DiagV)
    requires dg.code == Some(code_mismatch()), dg.code_is_string, content is Some,
        first_undecl(us, und_at(dg.range.start.line as int + 1, dg.range.start.character as int)) is Some
    ensures action_of_diag(uri, content, us, dg) == action_for(uri, content->0,
        first_undecl(us, und_at(dg.range.start.line as int + 1, dg.range.start.character as int))->0, dg)
{
    lemma_codes_distinct();
}
