// ---------------------------------------------------------------------------------------------
// Byte content of a string slice (property C15/C11 line arithmetic).  NOT a new assumption: vstd's own model
// (vstd::string): `str::as_bytes(s)` returns a slice whose view is `s.spec_bytes()` and `str::len(s)` returns
// `s.spec_bytes().len()`; `spec_bytes()` is vstd's UTF-8 encoding of the character view.  `str_bytes` only names it.
pub use vstd::string::StringSliceAdditionalSpecFns;
pub open spec fn str_bytes(s: &str) -> Seq<u8> { s.spec_bytes() }

/// the byte b'\n'
pub open spec fn NL() -> u8 { 10u8 }

/// a sequence of machine offsets read as mathematical integers
pub open spec fn ints(s: Seq<usize>) -> Seq<int> { s.map_values(|x: usize| x as int) }
