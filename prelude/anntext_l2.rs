// ---------------------------------------------------------------------------------------------
// Unit ann_text, L2: what `op_ann_text` (prelude/anntext_spec.rs) means for property C03 "return type text".
// No parser is modelled, so "the source text of the annotation" enters in two ways only:
//   (a) a CONSTANT is printed as the slice of `content` its range denotes (exactly, byte for byte);
//   (b) the TOKEN sequence of an annotation, defined from the AST (identifiers, constants and not-taken-apart
//       sub-expressions as written, `.` `[` `]` `,` `|`):
//       the printed text equals the concatenation of the tokens UP TO BLANKS, and the blanks the printer adds are exactly
//       one after every ',' and one on each side of every '|'   (lemma_C03_printed_text_is_tokens_up_to_blanks).
// That the token sequence of the AST is the token sequence of the source minus parentheses, comments and line breaks is
// the parser's contract — NOT proved here.  What the AST does not keep is lost: parentheses (FACT: nested tuples flatten),
// the trailing comma of a one-element tuple.  Every expression kind outside the six printed ones is ONE token: its own
// source slice (/repo cf97e77; before that the three characters `Any`, F-03d), `Any` only when its range is no valid slice.

// ---- (a) constants -----------------------------------------------------------------------------------------------------
//@tags C03
/// a constant whose range is a valid slice of the text prints EXACTLY that slice (the F-03c repair: `"Conn"`, `None`, `...`,
/// `'a' "b"` are shown as written, quotes included); otherwise the debug text of the value, never a panic
pub proof fn lemma_C03_constant_prints_its_source_slice(value: AConstant, range: rustpython_parser::text_size::TextRange, c: Seq<char>)
    ensures ({
        let a = tsv(tr_start(range)) as int; let b = tsv(tr_end(range)) as int;
        if a <= b && is_bnd(c, a) && is_bnd(c, b) { const_text(value, range, c) == c.subrange(cidx(c, a), cidx(c, b)) }
        else { const_text(value, range, c) == debug_v(&value) }
    }),
{}
pub proof fn lemma_ascii_boff(s: Seq<char>, k: int)
    requires vstd::utf8::is_ascii_chars(s), 0 <= k <= s.len(),
    ensures boff(s, k) == k,
{
    assert(vstd::utf8::is_ascii_chars(s.take(k))) by {
        assert forall|i: int| 0 <= i < s.take(k).len() implies (s.take(k)[i] as u32) < 0x80 by { assert(s.take(k)[i] == s[i]); }
    }
    vstd::utf8::is_ascii_chars_encode_utf8(s.take(k));
}
//@tags C03
/// for an ASCII source text byte offsets are character indices: the constant prints `content[start..end]`
pub proof fn lemma_C03_ascii_constant_prints_its_characters(c: Seq<char>, a: int, b: int)
    requires vstd::utf8::is_ascii_chars(c), 0 <= a <= b <= c.len(),
    ensures get_range_v(c, a, b) == Some(c.subrange(a, b)),
{
    lemma_ascii_boff(c, a);
    lemma_ascii_boff(c, b);
    assert(is_bnd(c, a) && is_bnd(c, b));
    let ka = cidx(c, a); let kb = cidx(c, b);
    lemma_ascii_boff(c, ka);
    lemma_ascii_boff(c, kb);
}

// ---- (b) tokens ----------------------------------------------------------------------------------------------------------
pub open spec fn toks(e: AExpr, c: Seq<char>) -> Seq<Seq<char>>
    decreases e, 0int
{
    match e {
        rustpython_parser::ast::Expr::Name(n) => seq![idv(&n.id)],
        rustpython_parser::ast::Expr::Attribute(a) => toks(*a.value, c) + seq!["."@, idv(&a.attr)],
        rustpython_parser::ast::Expr::Subscript(s) => toks(*s.value, c) + seq!["["@] + toks(*s.slice, c) + seq!["]"@],
        rustpython_parser::ast::Expr::Tuple(t) => toks_list(t.elts@, t.elts@.len() as int, c),
        rustpython_parser::ast::Expr::Constant(k) => seq![const_text(k.value, k.range, c)],
        rustpython_parser::ast::Expr::BinOp(b) => if is_bitor(b.op) { toks(*b.left, c) + seq!["|"@] + toks(*b.right, c) } else { seq![other_text(e, c)] },
        _ => seq![other_text(e, c)],
    }
}
/// the tokens of the first n elements of a tuple, separated by ","
pub open spec fn toks_list(es: Seq<AExpr>, n: int, c: Seq<char>) -> Seq<Seq<char>>
    decreases es, n
{
    if n <= 0 || n > es.len() { Seq::empty() }
    else if n == 1 { toks(es[0], c) }
    else { toks_list(es, n - 1, c) + seq![","@] + toks(es[n - 1], c) }
}
/// concatenation of a token sequence
pub open spec fn flat_t(ts: Seq<Seq<char>>) -> Seq<char>
    decreases ts.len()
{
    if ts.len() == 0 { Seq::empty() } else { flat_t(ts.drop_last()) + ts.last() }
}
/// a text without its blanks (U+0020)
pub open spec fn despace(s: Seq<char>) -> Seq<char>
    decreases s.len()
{
    if s.len() == 0 { Seq::empty() } else if s.last() == ' ' { despace(s.drop_last()) } else { despace(s.drop_last()).push(s.last()) }
}
pub proof fn lemma_despace_add(a: Seq<char>, b: Seq<char>)
    ensures despace(a + b) == despace(a) + despace(b),
    decreases b.len(),
{
    if b.len() == 0 { assert(a + b =~= a); assert(despace(a) + despace(b) =~= despace(a)); } else {
        assert((a + b).drop_last() =~= a + b.drop_last());
        assert((a + b).last() == b.last());
        lemma_despace_add(a, b.drop_last());
        assert(despace(a + b) =~= despace(a) + despace(b));
    }
}
pub proof fn lemma_flat_add(a: Seq<Seq<char>>, b: Seq<Seq<char>>)
    ensures flat_t(a + b) == flat_t(a) + flat_t(b),
    decreases b.len(),
{
    if b.len() == 0 { assert(a + b =~= a); assert(flat_t(a) + flat_t(b) =~= flat_t(a)); } else {
        assert((a + b).drop_last() =~= a + b.drop_last());
        assert((a + b).last() == b.last());
        lemma_flat_add(a, b.drop_last());
        assert(flat_t(a + b) =~= flat_t(a) + flat_t(b));
    }
}
pub proof fn lemma_flat_one(x: Seq<char>)
    ensures flat_t(seq![x]) == x,
{
    assert(seq![x].drop_last() =~= Seq::<Seq<char>>::empty());
    assert(seq![x].last() == x);
    assert(flat_t(Seq::<Seq<char>>::empty()) =~= Seq::<char>::empty());
    assert(flat_t(seq![x]) == flat_t(seq![x].drop_last()) + seq![x].last());
    assert(flat_t(seq![x]) =~= x);
}
pub proof fn lemma_flat_two(x: Seq<char>, y: Seq<char>)
    ensures flat_t(seq![x, y]) == x + y,
{
    assert(seq![x, y].drop_last() =~= seq![x]);
    lemma_flat_one(x);
}
/// the three separators, without their blanks
pub proof fn lemma_separator_lits()
    ensures despace(", "@) == ","@, despace(" | "@) == "|"@, despace(","@) == ","@, despace("|"@) == "|"@,
        ", "@ =~= seq![',', ' '], " | "@ =~= seq![' ', '|', ' '], "."@ =~= seq!['.'], "["@ =~= seq!['['], "]"@ =~= seq![']'],
        "Any"@ =~= seq!['A', 'n', 'y'],
{
    reveal_strlit(", "); reveal_strlit(" | "); reveal_strlit(","); reveal_strlit("|");
    reveal_strlit("."); reveal_strlit("["); reveal_strlit("]"); reveal_strlit("Any");
    let e = Seq::<char>::empty();
    assert(","@ =~= seq![',']);
    assert("|"@ =~= seq!['|']);
    assert(despace(e) =~= e);
    lemma_despace_push(e, ','); assert(e.push(',') =~= seq![',']);
    lemma_despace_push(e, '|'); assert(e.push('|') =~= seq!['|']);
    lemma_despace_push(e, ' '); assert(e.push(' ') =~= seq![' ']);
    lemma_despace_push(seq![','], ' '); assert(seq![','].push(' ') =~= seq![',', ' ']);
    lemma_despace_push(seq![' '], '|'); assert(seq![' '].push('|') =~= seq![' ', '|']);
    lemma_despace_push(seq![' ', '|'], ' '); assert(seq![' ', '|'].push(' ') =~= seq![' ', '|', ' ']);
    assert(despace(seq![' ']) =~= e);
    assert(despace(seq![',']) =~= seq![',']);
    assert(despace(seq![',', ' ']) =~= seq![',']);
    assert(despace(seq![' ', '|']) =~= seq!['|']);
    assert(despace(seq![' ', '|', ' ']) =~= seq!['|']);
    assert(", "@ == seq![',', ' ']);
    assert(" | "@ == seq![' ', '|', ' ']);
    assert(","@ == seq![',']);
    assert("|"@ == seq!['|']);
}
pub proof fn lemma_despace_push(s: Seq<char>, ch: char)
    ensures despace(s.push(ch)) == (if ch == ' ' { despace(s) } else { despace(s).push(ch) }),
{
    assert(s.push(ch).drop_last() =~= s);
    assert(s.push(ch).last() == ch);
}
//@tags C03
/// the printed text and the token sequence agree up to blanks — for EVERY expression (a kind the printer does not take
/// apart is ONE token on both sides: its source slice, or `Any`)
pub proof fn lemma_C03_printed_text_is_tokens_up_to_blanks(e: AExpr, c: Seq<char>)
    ensures despace(op_ann_text(e, c)) == despace(flat_t(toks(e, c))),
    decreases e, 0int,
{
    lemma_separator_lits();
    match e {
        rustpython_parser::ast::Expr::Name(n) => { lemma_flat_one(idv(&n.id)); }
        rustpython_parser::ast::Expr::Attribute(a) => {
            lemma_C03_printed_text_is_tokens_up_to_blanks(*a.value, c);
            let v = op_ann_text(*a.value, c); let tv = toks(*a.value, c);
            lemma_flat_add(tv, seq!["."@, idv(&a.attr)]);
            lemma_flat_two("."@, idv(&a.attr));
            lemma_despace_add(v + "."@, idv(&a.attr));
            lemma_despace_add(v, "."@);
            lemma_despace_add(flat_t(tv), "."@ + idv(&a.attr));
            lemma_despace_add("."@, idv(&a.attr));
            assert(despace(v + "."@ + idv(&a.attr)) =~= despace(flat_t(tv)) + (despace("."@) + despace(idv(&a.attr))));
        }
        rustpython_parser::ast::Expr::Subscript(s) => {
            lemma_C03_printed_text_is_tokens_up_to_blanks(*s.value, c);
            lemma_C03_printed_text_is_tokens_up_to_blanks(*s.slice, c);
            let v = op_ann_text(*s.value, c); let tv = toks(*s.value, c);
            let l = op_ann_text(*s.slice, c); let tl = toks(*s.slice, c);
            lemma_flat_add(tv + seq!["["@] + tl, seq!["]"@]);
            lemma_flat_add(tv + seq!["["@], tl);
            lemma_flat_add(tv, seq!["["@]);
            lemma_flat_one("["@); lemma_flat_one("]"@);
            lemma_despace_add(v + "["@ + l, "]"@);
            lemma_despace_add(v + "["@, l);
            lemma_despace_add(v, "["@);
            lemma_despace_add(flat_t(tv) + "["@ + flat_t(tl), "]"@);
            lemma_despace_add(flat_t(tv) + "["@, flat_t(tl));
            lemma_despace_add(flat_t(tv), "["@);
        }
        rustpython_parser::ast::Expr::Tuple(t) => { lemma_tuple_tokens(t.elts@, t.elts@.len() as int, c); }
        rustpython_parser::ast::Expr::Constant(k) => { lemma_flat_one(const_text(k.value, k.range, c)); }
        rustpython_parser::ast::Expr::BinOp(b) => {
            if is_bitor(b.op) {
                lemma_C03_printed_text_is_tokens_up_to_blanks(*b.left, c);
                lemma_C03_printed_text_is_tokens_up_to_blanks(*b.right, c);
                let l = op_ann_text(*b.left, c); let tl = toks(*b.left, c);
                let r = op_ann_text(*b.right, c); let tr = toks(*b.right, c);
                lemma_flat_add(tl + seq!["|"@], tr);
                lemma_flat_add(tl, seq!["|"@]);
                lemma_flat_one("|"@);
                lemma_despace_add(l + " | "@, r);
                lemma_despace_add(l, " | "@);
                lemma_despace_add(flat_t(tl) + "|"@, flat_t(tr));
                lemma_despace_add(flat_t(tl), "|"@);
            } else { lemma_flat_one(other_text(e, c)); }
        }
        _ => { lemma_flat_one(other_text(e, c)); }
    }
}
pub proof fn lemma_tuple_tokens(es: Seq<AExpr>, n: int, c: Seq<char>)
    requires 0 <= n <= es.len(),
    ensures despace(join_v(ann_texts(es, n, c), comma_sep())) == despace(flat_t(toks_list(es, n, c))),
    decreases es, n,
{
    lemma_separator_lits();
    lemma_ann_texts(es, n, c);
    if n == 0 {
    } else if n == 1 {
        lemma_C03_printed_text_is_tokens_up_to_blanks(es[0], c);
    } else {
        lemma_tuple_tokens(es, n - 1, c);
        lemma_C03_printed_text_is_tokens_up_to_blanks(es[n - 1], c);
        lemma_ann_texts(es, n - 1, c);
        let ts = ann_texts(es, n, c);
        assert(ts.drop_last() =~= ann_texts(es, n - 1, c));
        let j0 = join_v(ann_texts(es, n - 1, c), comma_sep());
        let x = op_ann_text(es[n - 1], c);
        assert(join_v(ts, comma_sep()) == j0 + comma_sep() + x);
        let t0 = toks_list(es, n - 1, c); let tx = toks(es[n - 1], c);
        lemma_flat_add(t0 + seq![","@], tx);
        lemma_flat_add(t0, seq![","@]);
        lemma_flat_one(","@);
        lemma_despace_add(j0 + comma_sep(), x);
        lemma_despace_add(j0, comma_sep());
        lemma_despace_add(flat_t(t0) + ","@, flat_t(tx));
        lemma_despace_add(flat_t(t0), ","@);
    }
}

// ---- what prints as "Any" ----------------------------------------------------------------------------------------------
/// the six expression kinds the printer looks into
pub open spec fn handled_kind(e: AExpr) -> bool {
    match e {
        rustpython_parser::ast::Expr::Name(_) => true,
        rustpython_parser::ast::Expr::Attribute(_) => true,
        rustpython_parser::ast::Expr::Subscript(_) => true,
        rustpython_parser::ast::Expr::Tuple(_) => true,
        rustpython_parser::ast::Expr::Constant(_) => true,
        rustpython_parser::ast::Expr::BinOp(b) => is_bitor(b.op),
        _ => false,
    }
}
//@tags C03
/// every other expression — wherever it stands inside the annotation — is printed AS WRITTEN: the slice of `content` its
/// own range denotes (Call `Gt(0)`, List `[int]`, Starred `*Ts`, UnaryOp `-1`, any BinOp other than `|`, Dict, Set,
/// Lambda, IfExp, BoolOp, Compare, JoinedStr, Slice, Await, NamedExpr, comprehensions, ...), blanks, comments and
/// line breaks inside it included; only when that range is not a valid slice of the text it is handed: `Any`
/// (F-03d repaired in /repo cf97e77; replay/scenarios/F-03d.json)
pub proof fn lemma_C03_other_kinds_print_their_source_slice(e: AExpr, c: Seq<char>)
    requires !handled_kind(e),
    ensures op_ann_text(e, c) == other_text(e, c), toks(e, c) == seq![other_text(e, c)],
        ({
            let a = tsv(tr_start(ann_expr_range(e))) as int; let b = tsv(tr_end(ann_expr_range(e))) as int;
            if a <= b && is_bnd(c, a) && is_bnd(c, b) { op_ann_text(e, c) == c.subrange(cidx(c, a), cidx(c, b)) } else { op_ann_text(e, c) == any_text() }
        }),
{}
pub open spec fn is_list(e: AExpr) -> bool { match e { rustpython_parser::ast::Expr::List(_) => true, _ => false } }
pub open spec fn sub_value(e: AExpr) -> AExpr { match e { rustpython_parser::ast::Expr::Subscript(s) => *s.value, _ => e } }
pub open spec fn sub_slice(e: AExpr) -> AExpr { match e { rustpython_parser::ast::Expr::Subscript(s) => *s.slice, _ => e } }
pub open spec fn tuple_elts(e: AExpr) -> Seq<AExpr> { match e { rustpython_parser::ast::Expr::Tuple(t) => t.elts@, _ => Seq::empty() } }
pub open spec fn is_subscript(e: AExpr) -> bool { match e { rustpython_parser::ast::Expr::Subscript(_) => true, _ => false } }
pub open spec fn is_tuple(e: AExpr) -> bool { match e { rustpython_parser::ast::Expr::Tuple(_) => true, _ => false } }
//@tags C03
/// `Callable[[int], str]` — a subscript whose slice is the tuple (List, x) — prints `Callable[<the list as written>, x]`:
/// the parameter list is kept verbatim (before /repo cf97e77 it was `Callable[Any, x]`, F-03d).
/// replay: `def fa() -> Callable[[int], str]:` records return_type "Callable[[int], str]"
pub proof fn lemma_C03_callable_parameter_list_prints_as_written(e: AExpr, c: Seq<char>)
    requires is_subscript(e), is_tuple(sub_slice(e)), tuple_elts(sub_slice(e)).len() == 2, is_list(tuple_elts(sub_slice(e))[0]),
    ensures op_ann_text(e, c) == op_ann_text(sub_value(e), c) + "["@
        + (other_text(tuple_elts(sub_slice(e))[0], c) + comma_sep() + op_ann_text(tuple_elts(sub_slice(e))[1], c)) + "]"@,
{
    let es = tuple_elts(sub_slice(e));
    lemma_ann_texts(es, 2, c);
    lemma_ann_texts(es, 1, c);
    let ts = ann_texts(es, 2, c);
    assert(ts.drop_last() =~= ann_texts(es, 1, c));
    lemma_C03_other_kinds_print_their_source_slice(es[0], c);
    assert(join_v(ann_texts(es, 1, c), comma_sep()) == other_text(es[0], c));
    assert(join_v(ts, comma_sep()) == other_text(es[0], c) + comma_sep() + op_ann_text(es[1], c));
    match e {
        rustpython_parser::ast::Expr::Subscript(s) => {
            match *s.slice {
                rustpython_parser::ast::Expr::Tuple(t) => { assert(op_ann_text(*s.slice, c) == join_v(ts, comma_sep())); }
                _ => {}
            }
        }
        _ => {}
    }
}
//@tags C03
/// FACT: the empty tuple prints as NOTHING: `tuple[()]` is recorded as `tuple[]`
pub proof fn lemma_C03_FACT_empty_tuple_prints_nothing(e: AExpr, c: Seq<char>)
    requires is_subscript(e), is_tuple(sub_slice(e)), tuple_elts(sub_slice(e)).len() == 0,
    ensures op_ann_text(e, c) == op_ann_text(sub_value(e), c) + "["@ + Seq::<char>::empty() + "]"@,
{
    match e {
        rustpython_parser::ast::Expr::Subscript(s) => {
            match *s.slice {
                rustpython_parser::ast::Expr::Tuple(t) => {
                    assert(ann_texts(t.elts@, 0, c) =~= Seq::<Seq<char>>::empty());
                    assert(op_ann_text(*s.slice, c) =~= Seq::<char>::empty());
                }
                _ => {}
            }
        }
        _ => {}
    }
}
//@tags C03
/// FACT: parentheses are not part of the AST, and a tuple prints without them: a tuple nested in a tuple is flattened —
/// `dict[(str, int), bytes]` prints `dict[str, int, bytes]` (two type arguments become three)
pub proof fn lemma_C03_FACT_nested_tuple_is_flattened(outer: Seq<AExpr>, c: Seq<char>)
    requires outer.len() == 2, is_tuple(outer[0]), tuple_elts(outer[0]).len() == 2,
    ensures join_v(ann_texts(outer, 2, c), comma_sep())
        == op_ann_text(tuple_elts(outer[0])[0], c) + comma_sep() + op_ann_text(tuple_elts(outer[0])[1], c) + comma_sep() + op_ann_text(outer[1], c),
{
    let inner = tuple_elts(outer[0]);
    lemma_ann_texts(outer, 2, c); lemma_ann_texts(outer, 1, c);
    lemma_ann_texts(inner, 2, c); lemma_ann_texts(inner, 1, c);
    assert(ann_texts(outer, 2, c).drop_last() =~= ann_texts(outer, 1, c));
    assert(ann_texts(inner, 2, c).drop_last() =~= ann_texts(inner, 1, c));
    assert(join_v(ann_texts(inner, 1, c), comma_sep()) == op_ann_text(inner[0], c));
    assert(join_v(ann_texts(inner, 2, c), comma_sep()) == op_ann_text(inner[0], c) + comma_sep() + op_ann_text(inner[1], c));
    assert(op_ann_text(outer[0], c) == join_v(ann_texts(inner, 2, c), comma_sep()));
    assert(join_v(ann_texts(outer, 1, c), comma_sep()) == op_ann_text(outer[0], c));
}
//@tags C03
/// the printed text depends on `content` ONLY through the slices of its constants and of the sub-expressions the printer
/// does not take apart: an annotation built from names, attributes, subscripts, tuples and `|` alone prints the same
/// whatever text it is handed (so a stale `content` can only garble constants and verbatim parts)
pub proof fn lemma_C03_content_matters_for_source_slices_only(e: AExpr, c1: Seq<char>, c2: Seq<char>)
    requires no_source_slices(e),
    ensures op_ann_text(e, c1) == op_ann_text(e, c2),
    decreases e, 0int,
{
    match e {
        rustpython_parser::ast::Expr::Attribute(a) => { lemma_C03_content_matters_for_source_slices_only(*a.value, c1, c2); }
        rustpython_parser::ast::Expr::Subscript(s) => {
            lemma_C03_content_matters_for_source_slices_only(*s.value, c1, c2);
            lemma_C03_content_matters_for_source_slices_only(*s.slice, c1, c2);
        }
        rustpython_parser::ast::Expr::Tuple(t) => { lemma_no_source_slices_list(t.elts@, t.elts@.len() as int, c1, c2); }
        rustpython_parser::ast::Expr::BinOp(b) => {
            if is_bitor(b.op) {
                lemma_C03_content_matters_for_source_slices_only(*b.left, c1, c2);
                lemma_C03_content_matters_for_source_slices_only(*b.right, c1, c2);
            }
        }
        _ => {}
    }
}
pub open spec fn no_source_slices(e: AExpr) -> bool
    decreases e, 0int
{
    match e {
        rustpython_parser::ast::Expr::Attribute(a) => no_source_slices(*a.value),
        rustpython_parser::ast::Expr::Subscript(s) => no_source_slices(*s.value) && no_source_slices(*s.slice),
        rustpython_parser::ast::Expr::Tuple(t) => no_source_slices_list(t.elts@, t.elts@.len() as int),
        rustpython_parser::ast::Expr::Name(_) => true,
        rustpython_parser::ast::Expr::BinOp(b) => is_bitor(b.op) && no_source_slices(*b.left) && no_source_slices(*b.right),
        _ => false,   // constants and every kind printed as its source slice
    }
}
pub open spec fn no_source_slices_list(es: Seq<AExpr>, n: int) -> bool
    decreases es, n
{
    if n <= 0 || n > es.len() { true } else { no_source_slices_list(es, n - 1) && no_source_slices(es[n - 1]) }
}
pub proof fn lemma_no_source_slices_list(es: Seq<AExpr>, n: int, c1: Seq<char>, c2: Seq<char>)
    requires 0 <= n <= es.len(), no_source_slices_list(es, n),
    ensures ann_texts(es, n, c1) == ann_texts(es, n, c2),
    decreases es, n,
{
    if n > 0 {
        lemma_no_source_slices_list(es, n - 1, c1, c2);
        lemma_C03_content_matters_for_source_slices_only(es[n - 1], c1, c2);
    }
}

// ---- vacuity guards: each of these must FAIL ---------------------------------------------------------------------------
/// "a constant prints the parser's debug representation" (the pre-fix behaviour, F-03c)
proof fn canary_constant_prints_debug_text(value: AConstant, range: rustpython_parser::text_size::TextRange, c: Seq<char>)
    ensures const_text(value, range, c) == debug_v(&value),
{}
/// "the source slice is always available"
proof fn canary_constant_slice_always_in_range(c: Seq<char>, a: int, b: int)
    ensures get_range_v(c, a, b) is Some,
{}
/// "expressions outside the six kinds are printed as `Any`" (the behaviour before /repo cf97e77, F-03d)
proof fn canary_list_prints_any(e: AExpr, c: Seq<char>)
    requires is_list(e),
    ensures op_ann_text(e, c) == any_text(),
{}
/// "expressions outside the six kinds are always printed as written" (the `Any` fallback for an invalid range exists)
proof fn canary_other_kinds_never_any(e: AExpr, c: Seq<char>)
    requires is_list(e),
    ensures op_ann_text(e, c) != any_text(),
{}
/// "the printed text IS the token concatenation" (no blanks added)
proof fn canary_printed_text_is_token_concatenation(e: AExpr, c: Seq<char>)
    ensures op_ann_text(e, c) == flat_t(toks(e, c)),
{
    lemma_C03_printed_text_is_tokens_up_to_blanks(e, c);
}
/// "a stale content never matters"
proof fn canary_content_never_matters(e: AExpr, c1: Seq<char>, c2: Seq<char>)
    ensures op_ann_text(e, c1) == op_ann_text(e, c2),
{}
