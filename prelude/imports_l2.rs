// ---------------------------------------------------------------------------------------------
// C14 (closure part), L2: statements of the property over the abstract import graph of prelude/imports_spec.rs.

/// the three closure rules as a property of a predicate P(file, name)
pub open spec fn rules_closed(env: Env, p: spec_fn(PV, Name) -> bool) -> bool {
    &&& forall|f: PV, n: Name| #[trigger] explicit_name(env, f, n) ==> p(f, n)
    &&& forall|f: PV, h: PV, n: Name| #[trigger] edge(env, f, h) && #[trigger] sbucket(env.fdefs, h).contains(n) ==> p(f, n)
    &&& forall|f: PV, h: PV, n: Name| #[trigger] edge(env, f, h) && #[trigger] p(h, n) ==> p(f, n)
}
pub open spec fn closure_pred(env: Env) -> spec_fn(PV, Name) -> bool { |f: PV, n: Name| in_closure(env, f, n) }

//@tags C14
/// "available where the importing file makes them available": closure satisfies the three rules
/// (explicitly imported fixture names; fixtures defined in a star-imported / pytest_plugins module; that
/// module's own closure)
pub proof fn lemma_C14_closure_rules(env: Env)
    ensures rules_closed(env, closure_pred(env))
{
    let p = closure_pred(env);
    assert forall|f: PV, n: Name| #[trigger] explicit_name(env, f, n) implies p(f, n) by {
        reveal(in_local); lemma_clo_local(env, f, n);
    }
    assert forall|f: PV, h: PV, n: Name| #[trigger] edge(env, f, h) && #[trigger] sbucket(env.fdefs, h).contains(n) implies p(f, n) by {
        lemma_clo_fdefs(env, f, h, n);
    }
    assert forall|f: PV, h: PV, n: Name| #[trigger] edge(env, f, h) && #[trigger] p(h, n) implies p(f, n) by {
        lemma_clo_step(env, f, h, n);
    }
}
pub proof fn lemma_closure_least_fuel(env: Env, p: spec_fn(PV, Name) -> bool, f: PV, n: Name, fuel: nat)
    requires rules_closed(env, p), in_clo(env, f, n, fuel)
    ensures p(f, n)
    decreases fuel
{
    if in_local(env, f, n) {
        reveal(in_local);
        if !explicit_name(env, f, n) {
            let h = choose|h: PV| #[trigger] edge(env, f, h) && sbucket(env.fdefs, h).contains(n);
            assert(p(f, n));
        }
    } else {
        let h = choose|h: PV| #[trigger] edge(env, f, h) && in_clo(env, h, n, (fuel - 1) as nat);
        lemma_closure_least_fuel(env, p, h, n, (fuel - 1) as nat);
        assert(p(f, n));
    }
}
//@tags C14
/// "exactly": closure is the LEAST predicate satisfying the rules — nothing else is made available
pub proof fn lemma_C14_closure_least(env: Env, p: spec_fn(PV, Name) -> bool, f: PV, n: Name)
    requires rules_closed(env, p), in_closure(env, f, n)
    ensures p(f, n)
{
    reveal(in_closure);
    let fuel = choose|fuel: nat| in_clo(env, f, n, fuel);
    lemma_closure_least_fuel(env, p, f, n, fuel);
}

/// a chain of star imports / pytest_plugins declarations p[0] -> p[1] -> ... -> p.last()
pub open spec fn is_chain(env: Env, p: Seq<PV>) -> bool {
    p.len() >= 1 && forall|k: int| 0 <= k < p.len() - 1 ==> edge(env, #[trigger] p[k], p[k + 1])
}
//@tags C14
/// fixtures at the end of a chain of any length (its definitions and its own closure) reach the head
pub proof fn lemma_C14_chain(env: Env, p: Seq<PV>, n: Name)
    requires is_chain(env, p), p.len() >= 2, sbucket(env.fdefs, p.last()).contains(n) || in_closure(env, p.last(), n)
    ensures in_closure(env, p[0], n)
    decreases p.len()
{
    assert(edge(env, p[0], p[1]));
    if p.len() == 2 {
        if sbucket(env.fdefs, p.last()).contains(n) { lemma_clo_fdefs(env, p[0], p[1], n); } else { lemma_clo_step(env, p[0], p[1], n); }
    } else {
        let q = p.subrange(1, p.len() as int);
        assert forall|k: int| 0 <= k < q.len() - 1 implies edge(env, #[trigger] q[k], q[k + 1]) by {
            assert(edge(env, p[k + 1], p[k + 2]));
        }
        assert(q.last() == p.last());
        lemma_C14_chain(env, q, n);
        lemma_clo_step(env, p[0], p[1], n);
    }
}
//@tags C14
/// import cycle a <-> b: both files see both files' fixtures
pub proof fn lemma_C14_cycle_shares_fixtures(env: Env, a: PV, b: PV, n: Name)
    requires edge(env, a, b), edge(env, b, a), sbucket(env.fdefs, a).contains(n) || sbucket(env.fdefs, b).contains(n)
    ensures in_closure(env, a, n), in_closure(env, b, n)
{
    if sbucket(env.fdefs, a).contains(n) { lemma_clo_fdefs(env, b, a, n); lemma_clo_step(env, a, b, n); }
    else { lemma_clo_fdefs(env, a, b, n); lemma_clo_step(env, b, a, n); }
}
//@tags C14
/// on an import cycle the closures coincide
pub proof fn lemma_C14_cycle_same_closure(env: Env, a: PV, b: PV, n: Name)
    requires edge(env, a, b), edge(env, b, a)
    ensures in_closure(env, a, n) == in_closure(env, b, n)
{
    if in_closure(env, a, n) { lemma_clo_step(env, b, a, n); }
    if in_closure(env, b, n) { lemma_clo_step(env, a, b, n); }
}
//@tags C14
/// a self import `from . import *` of the file itself exposes the file's own fixtures and nothing breaks
pub proof fn lemma_C14_self_import(env: Env, a: PV, n: Name)
    requires edge(env, a, a), sbucket(env.fdefs, a).contains(n)
    ensures in_closure(env, a, n)
{ lemma_clo_fdefs(env, a, a, n); }
//@tags C14
/// explicit imports are not transitive: a file without star imports / pytest_plugins entries gets exactly the
/// names it lists (that are fixture names), not the other fixtures of the modules it imports from
pub proof fn lemma_C14_explicit_only_named(env: Env, f: PV, n: Name)
    requires forall|h: PV| !edge(env, f, h), in_closure(env, f, n)
    ensures explicit_name(env, f, n)
{
    reveal(in_closure); reveal(in_local);
    let fuel = choose|fuel: nat| in_clo(env, f, n, fuel);
    assert(in_clo(env, f, n, fuel));
    if !in_local(env, f, n) {
        let h = choose|h: PV| #[trigger] edge(env, f, h) && in_clo(env, h, n, (fuel - 1) as nat);
    } else if !explicit_name(env, f, n) {
        let h = choose|h: PV| #[trigger] edge(env, f, h) && sbucket(env.fdefs, h).contains(n);
    }
}
//@tags C14
/// an import whose module does not resolve contributes nothing (no edge, no explicit name)
pub proof fn lemma_C14_unresolved_contributes_nothing(env: Env, f: PV, i: int, h: PV, k: int, n: Name)
    requires imp_target(env, f, i) is None
    ensures !star_at(env, f, i, h), !explicit_at(env, f, i, k, n)
{ }

// ---- canaries (must fail)
/// "an explicit import exposes the other fixtures of the module it imports from"
pub proof fn canary_explicit_import_is_transitive(env: Env, f: PV, i: int, k: int, x: Name, g: PV, n: Name)
    requires explicit_at(env, f, i, k, x), imp_target(env, f, i) == Some(g), sbucket(env.fdefs, g).contains(n)
    ensures in_closure(env, f, n)
{ }
/// "the closure of a file is contained in the fixtures the file itself defines"
pub proof fn canary_result_within_own_fdefs(env: Env, f: PV, r: Set<Name>)
    requires set_is_closure(env, f, r)
    ensures r.subset_of(sbucket(env.fdefs, f))
{ }

/// star_targets(f): what each `from M import *` (in source order) and then each pytest_plugins entry of f resolves to
/// (None: explicit import, or the module does not resolve)
pub open spec fn star_targets(env: Env, f: PV) -> Seq<Option<PV>> {
    Seq::new(imps(env, f).len(), |i: int| if imps(env, f)[i].star { imp_target(env, f, i) } else { None::<PV> })
    + Seq::new(plugs(env, f).len(), |j: int| plug_target(env, f, j))
}
//@tags C14
/// the edge relation used by the closure is exactly membership in star_targets
pub proof fn lemma_C14_edge_is_star_target(env: Env, f: PV, h: PV)
    ensures edge(env, f, h) == star_targets(env, f).contains(Some(h))
{
    reveal(edge);
    let st = star_targets(env, f);
    let n1 = imps(env, f).len() as int;
    if edge(env, f, h) {
        if exists|i: int| #[trigger] star_at(env, f, i, h) {
            let i = choose|i: int| #[trigger] star_at(env, f, i, h);
            assert(st[i] == Some(h));
        } else {
            let j = choose|j: int| #[trigger] plug_at(env, f, j, h);
            assert(st[n1 + j] == Some(h));
        }
    }
    if st.contains(Some(h)) {
        let k = choose|k: int| 0 <= k < st.len() && st[k] == Some(h);
        if k < n1 { assert(star_at(env, f, k, h)); } else { assert(plug_at(env, f, k - n1, h)); }
    }
}
