// ---------------------------------------------------------------------------------------------
// Unit constructors: T3/T6 applied to CONSTRUCTOR EXPRESSIONS.  `//@dbstruct_arc` strips the outermost `Arc<..>` /
// `Arc<Mutex<..>>` wrapper from every field TYPE of FixtureDatabase (the sequential reading of the database used by
// every unit).  The field INITIALISERS of the real `FixtureDatabase::new` build exactly those wrappers
// (`Arc::new(X)`, `Arc::new(std::sync::Mutex::new(X))`, `Arc::new(std::sync::atomic::AtomicU64::new(n))`), so the same
// stripping is applied to them: inside the module this file is spliced into, and ONLY there, the names `Arc` and
// `std::sync::Mutex` denote wrappers whose `new` is the identity, and `std::sync::atomic::AtomicU64` is the prelude
// shim (prelude/atomic.rs, `new` in prelude/ctor_shims.rs).  The function text itself is taken from the repo unchanged.
// All three `new` below are VERIFIED definitions (nothing assumed): they say what "stripped" means.
/// outer `Arc<T>` stripped to `T`
pub struct Arc;
impl Arc {
    pub fn new<T>(x: T) -> (r: T)
        ensures r == x
    { x }
}
pub mod std {
    pub use ::std::*;
    pub mod sync {
        use vstd::prelude::*;
        pub use ::std::sync::*;
        /// `std::sync::Mutex<T>` (always directly under the stripped outer Arc) stripped to `T`
        pub struct Mutex;
        impl Mutex {
            pub fn new<T>(x: T) -> (r: T)
                ensures r == x
            { x }
        }
        pub mod atomic {
            pub use ::std::sync::atomic::*;
            pub use crate::pre::AtomicU64;
        }
    }
}
