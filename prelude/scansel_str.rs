// ---------------------------------------------------------------------------------------------
// Unit scan_select: `str::starts_with` / `str::ends_with` on `Seq<char>` views (trusted base A3).  Same
// statements as P6 / P7 of prelude/strstruct_prims.rs, restricted to what the scanner uses (`&str` patterns);
// needs `#![feature(pattern)]` (prelude/strstruct_header.rs).
//   Q1  str::starts_with(pat)  r == sv_starts_with(s, text of pat)      (requires a `&str` pattern)
//   Q2  str::ends_with(pat)    r == sv_ends_with(s, text of pat)        (requires a `&str` pattern)
//   Q3  str::contains(pat)     r == sv_contains(s, text of pat)         (requires a `&str` pattern; not used by the
//                              scanner today — present so that a change from ends_with to contains gets a verdict)
pub open spec fn sv_starts_with(s: Seq<char>, t: Seq<char>) -> bool { t.len() <= s.len() && s.subrange(0, t.len() as int) == t }
pub open spec fn sv_ends_with(s: Seq<char>, t: Seq<char>) -> bool { t.len() <= s.len() && s.subrange(s.len() - t.len(), s.len() as int) == t }
pub open spec fn sv_contains(s: Seq<char>, t: Seq<char>) -> bool { exists|k: int| 0 <= k && k + t.len() <= s.len() && #[trigger] s.subrange(k, k + t.len()) == t }
/// the text a `&str` pattern denotes; None for every other pattern type (char, closures, slices): not specified
pub uninterp spec fn spat_v<P>(p: P) -> Option<Seq<char>>;
pub mod scansel_str_ax {
    use super::*;
    pub broadcast axiom fn axiom_spat_str(p: &str)
        ensures #[trigger] spat_v::<&str>(p) == Some(p@);
}
pub use scansel_str_ax::*;
#[verifier::allow(undeclared_external_trait)]
pub assume_specification<P: core::str::pattern::Pattern>[ str::starts_with::<P> ](s: &str, p: P) -> (r: bool)
    requires spat_v(p) is Some,
    ensures r == sv_starts_with(s@, spat_v(p)->0);
#[verifier::allow(undeclared_external_trait)]
pub assume_specification<P: core::str::pattern::Pattern>[ str::ends_with::<P> ](s: &str, p: P) -> (r: bool)
    where for<'a> P::Searcher<'a>: core::str::pattern::ReverseSearcher<'a>
    requires spat_v(p) is Some,
    ensures r == sv_ends_with(s@, spat_v(p)->0);
#[verifier::allow(undeclared_external_trait)]
pub assume_specification<P: core::str::pattern::Pattern>[ str::contains::<P> ](s: &str, p: P) -> (r: bool)
    requires spat_v(p) is Some,
    ensures r == sv_contains(s@, spat_v(p)->0);
