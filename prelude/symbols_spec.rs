// ---------------------------------------------------------------------------------------------
// Operational specifications of textDocument/documentSymbol and workspace/symbol (C15).
// Needs handlers_spec.rs (enumerates_keys, def_name_range, nonempty), lsp_backend.rs, sort.rs (str_cmp).

// ---- textDocument/documentSymbol ---------------------------------------------------------------------------
pub ghost struct SymV {
    pub name: Seq<char>, pub detail: Option<Seq<char>>, pub kind: SymbolKind, pub tags_none: bool, pub deprecated_none: bool,
    pub range: Range, pub selection_range: Range, pub children_none: bool,
}
pub open spec fn sym_v(s: DocumentSymbol) -> SymV {
    SymV { name: s.name@, detail: opt_sv(s.detail), kind: s.kind, tags_none: s.tags is None, deprecated_none: s.deprecated is None,
           range: s.range, selection_range: s.selection_range, children_none: s.children is None }
}
pub open spec fn syms_v(s: Seq<DocumentSymbol>) -> Seq<SymV> { s.map_values(|x: DocumentSymbol| sym_v(x)) }
/// uninterpreted: `format!("-> {}", rt)`
pub uninterp spec fn fmt_symbol_detail(rt: Seq<char>) -> Seq<char>;
/// the full range of a fixture's symbol: from column 0 of its first line to column 0 of its LAST line when it spans
/// several lines, else (one-line fixture) to the end of the name
pub open spec fn sym_range(d: DefV) -> Range {
    if lsp_line(d.end_line) > lsp_line(d.line) { mk_range(lsp_line(d.line), 0, lsp_line(d.end_line), 0) }
    else { mk_range(lsp_line(d.line), 0, lsp_line(d.line), d.end_char as u32) }
}
pub open spec fn sym_for(d: DefV) -> SymV {
    SymV { name: d.name, detail: match d.return_type { Some(t) => Some(fmt_symbol_detail(t)), None => None }, kind: sk_function(),
           tags_none: true, deprecated_none: true, range: sym_range(d), selection_range: def_name_range(d), children_none: true }
}
/// definitions that become symbols of the document: defined in the file, not third party
pub open spec fn sym_wanted(p: PV, d: DefV) -> bool { d.file == p && !d.is_third_party }
pub open spec fn syms_of_defs(p: PV, ds: Seq<DefV>) -> Seq<SymV>
    decreases ds.len()
{
    if ds.len() == 0 { Seq::empty() } else {
        let rest = syms_of_defs(p, ds.drop_last());
        if sym_wanted(p, ds.last()) { rest.push(sym_for(ds.last())) } else { rest }
    }
}
pub open spec fn syms_of_keys(defs: Map<Seq<char>, Seq<DefV>>, p: PV, ks: Seq<Seq<char>>) -> Seq<SymV>
    decreases ks.len()
{
    if ks.len() == 0 { Seq::empty() } else { syms_of_keys(defs, p, ks.drop_last()) + syms_of_defs(p, bucket(defs, ks.last())) }
}
/// b is a rearrangement of a
pub open spec fn rearranges<A>(a: Seq<A>, b: Seq<A>) -> bool {
    exists|p: Seq<int>| #[trigger] is_perm_idx(p, a.len() as int) && b.len() == a.len() && forall|i: int| 0 <= i < b.len() ==> #[trigger] b[i] == a[p[i]]
}
pub open spec fn ds_line_key() -> spec_fn(DocumentSymbol) -> u32 { |s: DocumentSymbol| s.range.start.line }
pub open spec fn sorted_by_start_line(s: Seq<SymV>) -> bool {
    forall|i: int, j: int| 0 <= i < j < s.len() ==> (#[trigger] s[i]).range.start.line <= (#[trigger] s[j]).range.start.line
}
pub open spec fn defs_fit2(defs: Map<Seq<char>, Seq<DefV>>) -> bool {
    forall|n: Seq<char>, i: int| defs.contains_key(n) && 0 <= i < defs[n].len() ==> line_fits((#[trigger] defs[n][i]).line) && line_fits(defs[n][i].end_line)
}
pub open spec fn docsym_list(r: jsonrpc::Result<Option<DocumentSymbolResponse>>) -> Option<Seq<SymV>> {
    match r { Ok(Some(DocumentSymbolResponse::Nested(v))) => Some(syms_v(v@)), _ => None }
}
/// postcondition of handle_document_symbol: for SOME enumeration of the fixture names (the hash order), the answer is
/// a rearrangement of the symbols of the file's definitions, sorted by start line; None when there are none
pub open spec fn docsym_post(defs: Map<Seq<char>, Seq<DefV>>, uri: Uri, r: jsonrpc::Result<Option<DocumentSymbolResponse>>) -> bool {
    match uri_path(uri) {
        None => r == Ok::<Option<DocumentSymbolResponse>, jsonrpc::Error>(None),
        Some(p) => r is Ok && exists|ks: Seq<Seq<char>>| enumerates_keys(ks, defs) && docsym_ok(#[trigger] syms_of_keys(defs, p, ks), r),
    }
}
pub open spec fn docsym_ok(all: Seq<SymV>, r: jsonrpc::Result<Option<DocumentSymbolResponse>>) -> bool {
    if all.len() == 0 { r == Ok::<Option<DocumentSymbolResponse>, jsonrpc::Error>(None) }
    else { docsym_list(r) is Some && rearranges(all, docsym_list(r)->0) && sorted_by_start_line(docsym_list(r)->0) }
}

// ---- workspace/symbol --------------------------------------------------------------------------------------
pub ghost struct WsV {
    pub name: Seq<char>, pub kind: SymbolKind, pub tags_none: bool, pub deprecated_none: bool,
    pub location: Location, pub container_name: Option<Seq<char>>,
}
pub open spec fn ws_v(s: SymbolInformation) -> WsV {
    WsV { name: s.name@, kind: s.kind, tags_none: s.tags is None, deprecated_none: s.deprecated is None,
          location: s.location, container_name: opt_sv(s.container_name) }
}
pub open spec fn wss_v(s: Seq<SymbolInformation>) -> Seq<WsV> { s.map_values(|x: SymbolInformation| ws_v(x)) }
/// uninterpreted string functions: `str::to_lowercase`, `str::contains(&String)`, `Path::file_name().to_str()`
pub uninterp spec fn lower(s: Seq<char>) -> Seq<char>;
pub uninterp spec fn str_contains(hay: Seq<char>, needle: Seq<char>) -> bool;
pub uninterp spec fn file_name_of(p: PV) -> Option<Seq<char>>;
/// q = the LOWERED query: third-party fixtures never match; the empty query matches every other fixture; otherwise
/// the lowered name must contain the lowered query
pub open spec fn ws_matches(q: Seq<char>, d: DefV) -> bool { !d.is_third_party && (q.len() == 0 || str_contains(lower(d.name), q)) }
/// the symbol of a matching definition: its location is the NAME span on the definition line (None: no URI -> dropped)
pub open spec fn ws_for(uc: UriCache, d: DefV) -> Option<WsV> {
    match path_uri(uc, d.file) {
        None => None,
        Some(u) => Some(WsV { name: d.name, kind: sk_function(), tags_none: true, deprecated_none: true,
                              location: Location { uri: u, range: def_name_range(d) }, container_name: file_name_of(d.file) }),
    }
}
pub open spec fn ws_of_defs(uc: UriCache, q: Seq<char>, ds: Seq<DefV>) -> Seq<WsV>
    decreases ds.len()
{
    if ds.len() == 0 { Seq::empty() } else {
        let rest = ws_of_defs(uc, q, ds.drop_last());
        let d = ds.last();
        if ws_matches(q, d) && ws_for(uc, d) is Some { rest.push(ws_for(uc, d)->0) } else { rest }
    }
}
pub open spec fn ws_of_keys(defs: Map<Seq<char>, Seq<DefV>>, uc: UriCache, q: Seq<char>, ks: Seq<Seq<char>>) -> Seq<WsV>
    decreases ks.len()
{
    if ks.len() == 0 { Seq::empty() } else { ws_of_keys(defs, uc, q, ks.drop_last()) + ws_of_defs(uc, q, bucket(defs, ks.last())) }
}
pub open spec fn ws_name_cmp() -> spec_fn(SymbolInformation, SymbolInformation) -> core::cmp::Ordering {
    |a: SymbolInformation, b: SymbolInformation| str_cmp(a.name@, b.name@)
}
pub proof fn lemma_ws_name_cmp_total()
    ensures total_cmp(ws_name_cmp())
{
    assert forall|a: SymbolInformation, b: SymbolInformation| #[trigger] ws_name_cmp()(a, b) is Less <==> ws_name_cmp()(b, a) is Greater by {
        axiom_str_cmp_dual(a.name@, b.name@);
    }
    assert forall|a: SymbolInformation, b: SymbolInformation, d: SymbolInformation|
        !(#[trigger] ws_name_cmp()(a, b) is Greater) && !(#[trigger] ws_name_cmp()(b, d) is Greater) implies !(ws_name_cmp()(a, d) is Greater) by {
        axiom_str_le_trans(a.name@, b.name@, d.name@);
    }
}
pub open spec fn sorted_by_name(s: Seq<WsV>) -> bool {
    forall|i: int, j: int| 0 <= i < j < s.len() ==> str_le((#[trigger] s[i]).name, (#[trigger] s[j]).name)
}
pub open spec fn ws_list(r: jsonrpc::Result<Option<Vec<SymbolInformation>>>) -> Option<Seq<WsV>> {
    match r { Ok(Some(v)) => Some(wss_v(v@)), _ => None }
}
pub open spec fn ws_ok(all: Seq<WsV>, r: jsonrpc::Result<Option<Vec<SymbolInformation>>>) -> bool {
    if all.len() == 0 { r == Ok::<Option<Vec<SymbolInformation>>, jsonrpc::Error>(None) }
    else { ws_list(r) is Some && rearranges(all, ws_list(r)->0) && sorted_by_name(ws_list(r)->0) }
}
/// postcondition of handle_workspace_symbol: for SOME enumeration of the fixture names, a rearrangement of the
/// symbols of all matching definitions, sorted by name (String order); None when there are none
pub open spec fn ws_post(defs: Map<Seq<char>, Seq<DefV>>, uc: UriCache, query: Seq<char>, r: jsonrpc::Result<Option<Vec<SymbolInformation>>>) -> bool {
    r is Ok && exists|ks: Seq<Seq<char>>| enumerates_keys(ks, defs) && ws_ok(#[trigger] ws_of_keys(defs, uc, lower(query), ks), r)
}
