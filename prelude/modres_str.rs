// ---------------------------------------------------------------------------------------------
// Unit module_resolve: the string / iterator / lock operations of resolve_module_to_file, resolve_relative_import,
// resolve_absolute_import and find_module_file (src/fixtures/imports.rs) on `Seq<char>` views.  Verus cannot look
// inside `str`; every std operation below is an ASSUMED specification (trusted base A3) that states its result as
// a function of the views.  What the unit PROVES is the order and the conditions under which they are applied.
//   MS1  str::starts_with(c: char)     r == (the text is non-empty and its first character is c)
//   MS2  `s.chars().peekable()` with peek / next / collect::<String>()  (VpPeek, @rename peekable vp_peekable):
//        a cursor over the characters of s: peek = the next character without consuming it, next = consume it,
//        collect = the characters not yet consumed.  (`str::chars` itself: vstd.)
//   MS3  str::split(c: char)           the pieces of s between the occurrences of c, in order: split_v(s, c)
//        (uninterpreted; @rename split vp_split), at least one piece (std: "will return at least one item" is NOT
//        needed for the contracts and is not assumed)
//   MS4  slice.iter().enumerate()      the pairs (k, &s[k]) in order (@rename enumerate vp_enumerate)
//   MS5  `format!("{}.py", part)`      r@ == part@ + ".py"@   (stated on the @wrapexpr helper in the unit)
//   MS6  Mutex::lock on the two Mutex-wrapped fields (T6 strips `Mutex<..>`): hands out the protected value, never
//        poisoned (sequential reading; no thread model, DESIGN §2) — same shim as units classify / scan_imports
// needs `#![feature(pattern)]` (prelude/strstruct_header.rs).

// ---- MS1 -------------------------------------------------------------------------------------------------------
/// the character a `char` pattern denotes; None for every other pattern type (not specified)
pub uninterp spec fn cpat_v<P>(p: P) -> Option<char>;
pub mod modres_str_ax {
    use super::*;
    pub broadcast axiom fn axiom_cpat_char(c: char)
        ensures #[trigger] cpat_v::<char>(c) == Some(c);
}
pub use modres_str_ax::*;
pub open spec fn starts_with_char(s: Seq<char>, c: char) -> bool { s.len() > 0 && s[0] == c }
#[verifier::allow(undeclared_external_trait)]
pub assume_specification<P: core::str::pattern::Pattern>[ str::starts_with::<P> ](s: &str, p: P) -> (r: bool)
    requires cpat_v(p) is Some,
    ensures r == starts_with_char(s@, cpat_v(p)->0);

// ---- MS2 -------------------------------------------------------------------------------------------------------
#[verifier::external_body]
pub struct VpPeek<'a> { inner: core::iter::Peekable<core::str::Chars<'a>> }
impl<'a> VpPeek<'a> {
    /// the characters not yet consumed
    pub uninterp spec fn rest(&self) -> Seq<char>;
    #[verifier::external_body]
    pub fn peek(&mut self) -> (r: Option<&char>)
        ensures final(self).rest() == old(self).rest(),
            match r { Some(c) => old(self).rest().len() > 0 && *c == old(self).rest()[0], None => old(self).rest().len() == 0 }
    { core::iter::Peekable::peek(&mut self.inner) }
    #[verifier::external_body]
    pub fn next(&mut self) -> (r: Option<char>)
        ensures match r {
            Some(c) => old(self).rest().len() > 0 && c == old(self).rest()[0] && final(self).rest() == old(self).rest().skip(1),
            None => old(self).rest().len() == 0 && final(self).rest() == old(self).rest() }
    { core::iter::Iterator::next(&mut self.inner) }
    #[verifier::external_body]
    pub fn collect(self) -> (r: String)
        ensures r@ == self.rest()
    { core::iter::Iterator::collect(self.inner) }
}
pub trait VpPeekable<'a>: Sized { fn vp_peekable(self) -> (r: VpPeek<'a>); }
impl<'a> VpPeekable<'a> for core::str::Chars<'a> {
    #[verifier::external_body]
    fn vp_peekable(self) -> (r: VpPeek<'a>) ensures r.rest() == self.remaining()
    { VpPeek { inner: core::iter::Iterator::peekable(self) } }
}

// ---- MS3 -------------------------------------------------------------------------------------------------------
pub uninterp spec fn split_v(s: Seq<char>, c: char) -> Seq<Seq<char>>;
pub open spec fn strs_of(v: Seq<&str>) -> Seq<Seq<char>> { v.map_values(|x: &str| x@) }
pub trait VpStrSplit {
    fn vp_split<'a>(&'a self, c: char) -> (r: std::vec::IntoIter<&'a str>);
}
impl VpStrSplit for str {
    #[verifier::external_body]
    fn vp_split<'a>(&'a self, c: char) -> (r: std::vec::IntoIter<&'a str>)
        ensures r.obeys_prophetic_iter_laws(), r.decrease() is Some, strs_of(r.remaining()) == split_v(self@, c),
    { self.split(c).collect::<Vec<&'a str>>().into_iter() }
}

// ---- MS4 -------------------------------------------------------------------------------------------------------
pub trait VpEnumerate<'a, T: 'a>: Sized + Iterator<Item = &'a T> {
    fn vp_enumerate(self) -> (r: std::vec::IntoIter<(usize, &'a T)>);
}
impl<'a, T: 'a> VpEnumerate<'a, T> for core::slice::Iter<'a, T> {
    #[verifier::external_body]
    fn vp_enumerate(self) -> (r: std::vec::IntoIter<(usize, &'a T)>)
        ensures r.obeys_prophetic_iter_laws(), r.decrease() is Some,
            r.remaining().len() == self.remaining().len(),
            forall|k: int| 0 <= k < r.remaining().len() ==> (#[trigger] r.remaining()[k]).0 == k && r.remaining()[k].1 == self.remaining()[k],
    { self.enumerate().collect::<Vec<(usize, &'a T)>>().into_iter() }
}

// ---- MS6 -------------------------------------------------------------------------------------------------------
#[derive(Debug)]
pub struct PoisonNever { _p: () }
pub trait VpLock: Sized { fn lock(&self) -> (r: Result<&Self, PoisonNever>) ensures r is Ok, r->Ok_0 == self; }
impl VpLock for Vec<PathBuf> {
    #[verifier::external_body]
    fn lock(&self) -> (r: Result<&Self, PoisonNever>) { Ok(self) }
}

// ---- PROVED facts about the three literals ---------------------------------------------------------------------
pub open spec fn py_suffix() -> Seq<char> { ".py"@ }
pub open spec fn init_name() -> Seq<char> { "__init__.py"@ }
pub proof fn lemma_modres_lits()
    ensures ".py"@ =~= seq!['.', 'p', 'y'], simple_name(init_name()), init_name().len() == 11,
{
    reveal_strlit(".py");
    reveal_strlit("__init__.py");
    let t = "__init__.py"@;
    assert(t =~= seq!['_', '_', 'i', 'n', 'i', 't', '_', '_', '.', 'p', 'y']);
    assert forall|i: int| 0 <= i < t.len() implies t[i] != '/' && t[i] != '\\' by {}
}
/// `<name>.py` is a simple name whenever `<name>` contains no separator (even for the empty name: ".py")
pub proof fn lemma_py_name_simple(t: Seq<char>)
    requires !t.contains('/'), !t.contains('\\'),
    ensures simple_name(t + py_suffix()),
{
    lemma_modres_lits();
    let u = t + py_suffix();
    assert(u.len() == t.len() + 3);
    assert forall|i: int| 0 <= i < u.len() implies u[i] != '/' && u[i] != '\\' by {
        if i < t.len() { assert(u[i] == t[i]); assert(t.contains(t[i])); } else { assert(u[i] == py_suffix()[i - t.len()]); }
    }
    assert(u[u.len() - 1] == 'y');
    if u == seq!['.'] { assert(u.len() == 1); }
    if u == seq!['.', '.'] { assert(u.len() == 2); }
}
