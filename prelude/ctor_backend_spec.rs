// ---------------------------------------------------------------------------------------------
// Unit constructors: the initial SERVER state.  `providers::Backend` is the REAL struct of src/providers/mod.rs (all
// seven fields, real std Arc, tokio locks = prelude/ctor_tokio.rs); top-level `Backend` is the three-field model of the
// notification handlers (prelude/lsp_backend_mut.rs, unit handlers_main) whose invariants srv_inv / cache_inv are proved
// to hold of it.
pub open spec fn cfg_is_default(c: providers::Config) -> bool {
    c.exclude@ == Seq::<crate::pre::Pattern>::empty() && c.disabled_diagnostics@ == Seq::<String>::empty()
    && c.fixture_paths@ == Seq::<String>::empty() && c.skip_plugins@ == Seq::<String>::empty()
}
/// every field `Backend::new` does not take from its arguments: no workspace root (canonical or original), no scan
/// task, an EMPTY URI cache, the default configuration
pub open spec fn backend_fresh(b: providers::Backend) -> bool {
    &&& b.workspace_root.v is None
    &&& b.original_workspace_root.v is None
    &&& b.scan_task.v is None
    &&& b.uri_cache.m() == Map::<PV, Uri>::empty()
    &&& cfg_is_default(b.config.v)
}
/// the contract of Backend::new(client, fixture_db): the two arguments are stored AS GIVEN (the database is the very Arc
/// handed in: no second database), everything else is fresh
pub open spec fn backend_new_post(r: providers::Backend, client: Client, fixture_db: Arc<FixtureDatabase>) -> bool {
    r.client == client && r.fixture_db == fixture_db && backend_fresh(r)
}
/// the state a server starts serving in (start_lsp_server, src/main.rs): a fresh Backend around a fresh database
pub open spec fn server_initial(b: providers::Backend) -> bool { backend_fresh(b) && db_fresh(*b.fixture_db) }
/// the real server state as the notification handlers' model (prelude/lsp_backend_mut.rs) sees it
pub open spec fn model_of(b: providers::Backend) -> Backend {
    Backend { client: b.client, fixture_db: *b.fixture_db, uri_cache: *b.uri_cache }
}
