// ---------------------------------------------------------------------------------------------
// Shims used by the inlay-hint handler only.  Needs dashmap.rs (KeyView) and hashmap.rs (HashMap stand-in).
impl<'a> KeyView for &'a str { type KV = Seq<char>; open spec fn kview(&self) -> Seq<char> { (*self)@ } }
impl<K: KeyView, V> HashMap<K, V> {
    #[verifier::external_body]
    pub fn is_empty(&self) -> (r: bool) ensures r == (forall|k: K::KV| !self.m().contains_key(k))
    { unimplemented!() }
}
// `iter.collect::<HashMap<_, _>>()` in a T5b helper body (never seen by Verus: the helper is external_body)
#[verifier::external]
impl<K: KeyView + Eq + std::hash::Hash, V> FromIterator<(K, V)> for HashMap<K, V> {
    fn from_iter<I: IntoIterator<Item = (K, V)>>(iter: I) -> Self { HashMap { inner: iter.into_iter().collect() } }
}
pub open spec fn strs_ref_v(s: Seq<&str>) -> Seq<Seq<char>> { s.map_values(|x: &str| x@) }
pub assume_specification<'a, T: Copy>[ Option::<&'a T>::copied ](o: Option<&'a T>) -> (r: Option<T>)
    ensures r == (match o { Some(x) => Some(*x), None => None::<T> });
