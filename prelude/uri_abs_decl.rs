// DECLARATION ONLY: is the path absolute (`Path::is_absolute`; on Unix: the spelling starts with '/').  The same
// uninterpreted function is declared by prelude/modres_path.rs and prelude/scanvenv_fs.rs: include this file only in
// units that include neither.  No assumption in this file.
pub uninterp spec fn pv_is_abs(p: PV) -> bool;
