// ---------------------------------------------------------------------------------------------
// Operational specification of the cursor / position -> fixture NAME queries of src/fixtures/resolver.rs
// (find_fixture_at_position, find_fixture_references, get_undeclared_fixtures) and of the analyzer's
// find_function_name_position wrapper.  Needs prelude/types.rs, dbview.rs, text.rs, refs_spec.rs (first_use).

/// string_utils::find_function_name_position(content, line, func_name): (start_char, end_char) of the name.
/// Same name and signature as the function unit `visit` uses (prelude/visit_spec.rs): string search, left
/// abstract here (bounded checking: Kani).
pub uninterp spec fn name_pos(src: Seq<char>, line: usize, fname: Seq<char>) -> (usize, usize);

/// usage u "covers" the cursor: it is on the 1-based line and the column lies in its half-open span
/// [start_char, end_char).  (No condition on the name: find_fixture_at_position does not compare it.)
pub open spec fn covers(line1: int, ch: int) -> spec_fn(UseV) -> bool {
    |u: UseV| u.line == line1 && u.start_char <= ch < u.end_char
}
/// some definition registered under ANY key of the definitions map sits at (file, line1) and carries name w.
/// Order independent: whichever such definition the hash iteration meets first, the answer is w.
pub open spec fn def_named_at(defs: Map<Seq<char>, Seq<DefV>>, file: PV, line1: int, w: Seq<char>) -> bool {
    exists|n: Seq<char>, i: int| defs.contains_key(n) && 0 <= i < defs[n].len()
        && (#[trigger] defs[n][i]).file == file && defs[n][i].line == line1 && defs[n][i].name == w
}
pub open spec fn no_def_named_at(defs: Map<Seq<char>, Seq<DefV>>, file: PV, line1: int, w: Seq<char>) -> bool {
    forall|n: Seq<char>, i: int| defs.contains_key(n) && 0 <= i < defs[n].len() ==>
        !((#[trigger] defs[n][i]).file == file && defs[n][i].line == line1 && defs[n][i].name == w)
}
/// the definition branch of find_fixture_at_position, given the text of the cursor line
pub open spec fn op_def_name_at(defs: Map<Seq<char>, Seq<DefV>>, file: PV, line1: int, lc: Seq<char>, ch: int) -> Option<Seq<char>> {
    match word_at(lc, ch) {
        Some(w) => if def_named_at(defs, file, line1, w) { Some(w) } else { None },
        None => None,
    }
}
/// what find_fixture_at_position (0-based line / column) computes: the name of the FIRST recorded usage of the
/// file (list order) that covers the cursor; else the word under the cursor if a definition with that name is
/// registered on that line of the file; else nothing.  Nothing at all when the file has no text or no such line.
pub open spec fn op_name_at(cache: Map<PV, String>, defs: Map<Seq<char>, Seq<DefV>>, uses: Map<PV, Seq<UseV>>,
                            file: PV, line: u32, ch: u32) -> Option<Seq<char>> {
    match file_content(cache, file) {
        None => None,
        Some(t) => match line_of(t, line as int) {
            None => None,
            Some(lc) => match first_use(bucket(uses, file), covers(line as int + 1, ch as int)) {
                Some(u) => Some(u.name),
                None => op_def_name_at(defs, file, line as int + 1, lc, ch as int),
            },
        },
    }
}

// ---- find_fixture_references: all usages carrying a name, over all files ------------------------------------
pub open spec fn named(n: Seq<char>) -> spec_fn(UseV) -> bool { |u: UseV| u.name == n }
/// the usages named n of the files ks[0], ks[1], ... concatenated in that order, each file's in list order
pub open spec fn refs_by_name(uses: Map<PV, Seq<UseV>>, ks: Seq<PV>, n: Seq<char>) -> Seq<UseV>
    decreases ks.len()
{
    if ks.len() == 0 { Seq::empty() } else { refs_by_name(uses, ks.drop_last(), n) + bucket(uses, ks.last()).filter(named(n)) }
}
/// ks lists every key of m exactly once (the hash iteration order is one such ks; nothing else is known of it)
pub open spec fn enumerates<V>(ks: Seq<PV>, m: Map<PV, V>) -> bool {
    ks.no_duplicates() && (forall|k: PV| ks.contains(k) <==> m.contains_key(k))
}
/// postcondition of find_fixture_references: for SOME enumeration of the files, the concatenation above
pub open spec fn refs_by_name_post(uses: Map<PV, Seq<UseV>>, n: Seq<char>, r: Seq<UseV>) -> bool {
    exists|ks: Seq<PV>| enumerates(ks, uses) && r == #[trigger] refs_by_name(uses, ks, n)
}

/// number of elements of s equal to x
pub open spec fn count_of<A>(s: Seq<A>, x: A) -> nat
    decreases s.len()
{
    if s.len() == 0 { 0 } else { count_of(s.drop_last(), x) + (if s.last() == x { 1nat } else { 0nat }) }
}
/// how often x is recorded (under its own name) in the files ks
pub open spec fn recorded_count(uses: Map<PV, Seq<UseV>>, ks: Seq<PV>, x: UseV) -> nat
    decreases ks.len()
{
    if ks.len() == 0 { 0 } else { recorded_count(uses, ks.drop_last(), x) + count_of(bucket(uses, ks.last()), x) }
}

// ---- get_undeclared_fixtures ------------------------------------------------------------------------------
pub struct UndeclV {
    pub name: Seq<char>, pub file: PV, pub line: usize, pub start_char: usize, pub end_char: usize,
    pub function_name: Seq<char>, pub function_line: usize,
}
pub open spec fn udv(u: &UndeclaredFixture) -> UndeclV {
    UndeclV { name: u.name@, file: pbv(&u.file_path), line: u.line, start_char: u.start_char, end_char: u.end_char,
              function_name: u.function_name@, function_line: u.function_line }
}
// A5: derive(Clone) on UndeclaredFixture clones every field
pub assume_specification[ <UndeclaredFixture as Clone>::clone ](a: &UndeclaredFixture) -> (r: UndeclaredFixture)
    ensures udv(&r) == udv(a);
pub open spec fn udvs(s: Seq<UndeclaredFixture>) -> Seq<UndeclV> { s.map_values(|u: UndeclaredFixture| udv(&u)) }
pub open spec fn undecl_view(m: Map<PV, Vec<UndeclaredFixture>>) -> Map<PV, Seq<UndeclV>> {
    m.map_values(|v: Vec<UndeclaredFixture>| udvs(v@))
}
/// element-wise equal views (what cloning a Vec<UndeclaredFixture> preserves)
pub open spec fn same_undecl(a: Seq<UndeclaredFixture>, b: Seq<UndeclaredFixture>) -> bool {
    a.len() == b.len() && forall|i: int| 0 <= i < a.len() ==> udv(&#[trigger] a[i]) == udv(&b[i])
}
/// object-level postcondition of get_undeclared_fixtures (a one-expression function): the recorded list of the
/// file, cloned; empty when the file has no entry
pub open spec fn undecl_post(m: Map<PV, Vec<UndeclaredFixture>>, file: PV, r: Seq<UndeclaredFixture>) -> bool {
    if m.contains_key(file) { same_undecl(r, m[file]@) } else { r.len() == 0 }
}
