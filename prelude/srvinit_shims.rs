// ---------------------------------------------------------------------------------------------
// Unit server_init: assumed specifications / stand-ins (trusted base A3 / A4 / T6) for what `initialize` and `shutdown`
// of src/main.rs touch outside the repo.  Needs path.rs, glob.rs, strings.rs, build/lspspec_init.rs.
//   SI1  `Path::canonicalize` (A4): the canonical form when the path resolves (`fs_canonical`), else an error
//   SI2  `Result::unwrap_or_else`, `Option::or_else`: the documented case distinction (closure called only when needed)
//   SI3  `Uri::to_file_path` (T5 rename -> vp_to_file_path): an uninterpreted function `uri_file_path` of the URI (URI
//        syntax is outside the model; the real function does NOT look at the scheme); the Cow<Path> it returns is only
//        turned into a PathBuf
//   SI4  `<Uri as Clone>::clone`, `<Option<Uri> as Clone>::clone`: equal values
//   SI5  `<ServerCapabilities as Default>::default`: NOTHING is assumed about the fields the handler does not set
//   SI6  the @wrapexpr / @replace helpers of the unit (opaque associated consts, env!, vec!)
#[verifier::external_type_specification] #[verifier::external_body] pub struct ExIoError(std::io::Error);
/// SI1
pub uninterp spec fn fs_canonical(p: PV) -> Option<PV>;
pub assume_specification[ Path::canonicalize ](p: &Path) -> (r: Result<PathBuf, std::io::Error>)
    ensures match r { Ok(c) => fs_canonical(pv(p)) == Some(pbv(&c)), Err(_) => fs_canonical(pv(p)) is None };
/// SI2
pub assume_specification<T, E, F>[ Result::<T, E>::unwrap_or_else ](r: Result<T, E>, f: F) -> (o: T)
    where F: FnOnce(E) -> T + core::marker::Destruct
    requires r is Err ==> call_requires(f, (r->Err_0,)),
    ensures match r { Ok(t) => o == t, Err(e) => call_ensures(f, (e,), o) };
pub assume_specification<T, F>[ Option::<T>::or_else ](o: Option<T>, f: F) -> (r: Option<T>)
    where F: FnOnce() -> Option<T> + core::marker::Destruct
    requires o is None ==> call_requires(f, ()),
    ensures match o { Some(t) => r == Some(t), None => call_ensures(f, (), r) };
/// SI3
pub uninterp spec fn uri_file_path(u: Uri) -> Option<PV>;
pub struct VpFilePath { pub p: Ghost<PV> }
impl VpFilePath {
    #[verifier::external_body]
    pub fn to_path_buf(&self) -> (r: PathBuf) ensures pbv(&r) == self.p@ { unimplemented!() }
}
pub trait VpUriPath { fn vp_to_file_path(&self) -> (r: Option<VpFilePath>); }
impl VpUriPath for Uri {
    #[verifier::external_body]
    fn vp_to_file_path(&self) -> (r: Option<VpFilePath>)
        ensures (match r { Some(x) => Some(x.p@), None => None::<PV> }) == uri_file_path(*self)
    { unimplemented!() }
}
/// SI4
pub assume_specification[ <Uri as Clone>::clone ](u: &Uri) -> (r: Uri)
    ensures r == *u;
/// SI5
pub assume_specification[ <ServerCapabilities as Default>::default ]() -> (r: ServerCapabilities);
pub open spec fn opt_pbv(o: Option<PathBuf>) -> Option<PV> { match o { Some(p) => Some(pbv(&p)), None => None } }
pub mod si_ax {
    use super::*;
    /// (P4') a `&PathBuf` argument passed as `AsRef<Path>` denotes its own components
    pub broadcast axiom fn axiom_pathbuf_ref_as_path_si<'a>(p: &'a PathBuf)
        ensures #[trigger] as_path_view::<&'a PathBuf>(p) == pbv(p);
}
pub use si_ax::*;

// ---- the configuration: the spec vocabulary of units/config.rs the contract PROVED there for Config::load is written in
// (copied: units/config.rs is a unit, not a prelude).  `parse_cfg` is left UNINTERPRETED here (units/config.rs defines it
// as from_raw of the parsed [tool.pytest-language-server] table; every statement made with the abstract function holds
// for that definition).
pub struct CfgV { pub exclude: Seq<Seq<char>>, pub disabled: Seq<Seq<char>>, pub fixture_paths: Seq<Seq<char>>, pub skip_plugins: Seq<Seq<char>> }
pub open spec fn empty_cfg() -> CfgV { CfgV { exclude: Seq::empty(), disabled: Seq::empty(), fixture_paths: Seq::empty(), skip_plugins: Seq::empty() } }
pub open spec fn pyproject_pv(root: PV) -> PV { root + seq!["pyproject.toml"@] }
pub uninterp spec fn fs_read(p: PV) -> Option<Seq<char>>;
pub uninterp spec fn parse_cfg(content: Seq<char>) -> CfgV;
/// the configuration the server works with when its workspace root is `root` (right-hand side of Config::load's contract)
pub open spec fn cfg_of_root(root: PV) -> CfgV {
    if !fs_exists(pyproject_pv(root)) { empty_cfg() } else { match fs_read(pyproject_pv(root)) { Some(t) => parse_cfg(t), None => empty_cfg() } }
}
