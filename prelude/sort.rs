// ---------------------------------------------------------------------------------------------
// `String::cmp` and `<[T]>::sort_by`: assumed specifications (trusted base A3).
//
// What is assumed, exactly:
//  (S1) `<String as Ord>::cmp(a, b)` is a function `str_cmp(a@, b@)` of the two contents (uninterpreted: the
//       byte-wise lexicographic order is not modelled);
//  (S2) str_cmp is a total order in the sense sort_by needs: Less(a,b) <==> Greater(b,a), and
//       `str_le(a,b) := str_cmp(a,b) != Greater` is transitive (reflexivity and totality follow);
//  (S3) `v.sort_by(f)`, for a comparator f that computes a total order c (cmp_models + total_cmp — since
//       Rust 1.81 sort_by may panic otherwise, hence a PREcondition), leaves in v a rearrangement of the old
//       contents (`sort_perm` = some bijection of the index range, new[i] == old[perm[i]]) which is ordered:
//       i < j ==> c(new[i], new[j]) != Greater.   Stability is true of sort_by but not assumed.
use core::cmp::Ordering;

pub uninterp spec fn str_cmp(a: Seq<char>, b: Seq<char>) -> Ordering;
pub open spec fn str_le(a: Seq<char>, b: Seq<char>) -> bool { !(str_cmp(a, b) is Greater) }

pub assume_specification[ <String as Ord>::cmp ](a: &String, b: &String) -> (r: Ordering)
    ensures r == str_cmp(a@, b@);

pub mod sort_ax {
    use super::*;
    pub axiom fn axiom_str_cmp_dual(a: Seq<char>, b: Seq<char>)
        ensures str_cmp(a, b) is Less <==> str_cmp(b, a) is Greater;
    pub axiom fn axiom_str_le_trans(a: Seq<char>, b: Seq<char>, c: Seq<char>)
        requires str_le(a, b), str_le(b, c) ensures str_le(a, c);
}
pub use sort_ax::*;

/// the comparator closure computes c
pub open spec fn cmp_models<T, F: FnMut(&T, &T) -> Ordering>(f: F, c: spec_fn(T, T) -> Ordering) -> bool {
    forall|a: &T, b: &T, o: Ordering| #[trigger] call_ensures(f, (a, b), o) ==> o == c(*a, *b)
}
pub open spec fn total_cmp<T>(c: spec_fn(T, T) -> Ordering) -> bool {
    &&& forall|a: T, b: T| #[trigger] c(a, b) is Less <==> c(b, a) is Greater
    &&& forall|a: T, b: T, d: T| !(#[trigger] c(a, b) is Greater) && !(#[trigger] c(b, d) is Greater) ==> !(c(a, d) is Greater)
}
pub open spec fn sorted_by<T>(s: Seq<T>, c: spec_fn(T, T) -> Ordering) -> bool {
    forall|i: int, j: int| 0 <= i < j < s.len() ==> !(c(#[trigger] s[i], #[trigger] s[j]) is Greater)
}
/// p is a bijection of 0..n written as a sequence
pub open spec fn is_index_perm(p: Seq<int>, n: int) -> bool {
    p.len() == n && p.no_duplicates() && forall|i: int| 0 <= i < n ==> 0 <= #[trigger] p[i] < n
}
/// the rearrangement sort_by performed (skolem function instead of an existential)
pub uninterp spec fn sort_perm<T>(old: Seq<T>, new: Seq<T>) -> Seq<int>;

// T5 wrapper: `Vec::sort_by` is the slice method reached through DerefMut; `.sort_by(` is renamed to
// `.vp_sort_by(`, whose external body IS the call to the real method.
pub trait VpSort<T> {
    fn vp_sort_by<F: FnMut(&T, &T) -> Ordering>(&mut self, f: F)
        requires forall|a: &T, b: &T| #[trigger] call_requires(f, (a, b)),
            exists|c: spec_fn(T, T) -> Ordering| #![trigger total_cmp(c)] cmp_models(f, c) && total_cmp(c);
}
impl<T> VpSort<T> for Vec<T> {
    #[verifier::external_body]
    fn vp_sort_by<F: FnMut(&T, &T) -> Ordering>(&mut self, f: F)
        ensures
            final(self)@.len() == old(self)@.len(),
            is_index_perm(sort_perm(old(self)@, final(self)@), old(self)@.len() as int),
            forall|i: int| 0 <= i < final(self)@.len() ==> #[trigger] final(self)@[i] == old(self)@[sort_perm(old(self)@, final(self)@)[i]],
            forall|c: spec_fn(T, T) -> Ordering| cmp_models(f, c) && #[trigger] total_cmp(c) ==> sorted_by(final(self)@, c),
    { self.sort_by(f) }
}

/// an index permutation reaches every index (pigeonhole; PROVED)
pub proof fn lemma_index_perm_onto(p: Seq<int>, n: int, q: int)
    requires is_index_perm(p, n), 0 <= q < n
    ensures exists|i: int| 0 <= i < n && #[trigger] p[i] == q
{
    let r = vstd::set_lib::set_int_range(0, n);
    vstd::set_lib::lemma_int_range(0, n);
    assert forall|i: int| 0 <= i < p.len() implies r.contains(#[trigger] p[i]) by {}
    lemma_injective_seq_covers(p, r);
    assert(r.contains(q));
    assert(p.contains(q));
}

/// the comparator of compute_available_fixtures: by name
pub open spec fn name_cmp() -> spec_fn(FixtureDefinition, FixtureDefinition) -> Ordering {
    |a: FixtureDefinition, b: FixtureDefinition| str_cmp(a.name@, b.name@)
}
pub proof fn lemma_name_cmp_total()
    ensures total_cmp(name_cmp())
{
    assert forall|a: FixtureDefinition, b: FixtureDefinition| #[trigger] name_cmp()(a, b) is Less <==> name_cmp()(b, a) is Greater by {
        axiom_str_cmp_dual(a.name@, b.name@);
    }
    assert forall|a: FixtureDefinition, b: FixtureDefinition, d: FixtureDefinition|
        !(#[trigger] name_cmp()(a, b) is Greater) && !(#[trigger] name_cmp()(b, d) is Greater) implies !(name_cmp()(a, d) is Greater) by {
        axiom_str_le_trans(a.name@, b.name@, d.name@);
    }
}
