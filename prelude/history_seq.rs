// ---------------------------------------------------------------------------------------------
// Unit history: generic sequence toolkit (filter algebra, multisets, bucket extensionality).  All proved.
// Needs hof.rs (lemma_filter_all) and history_vocab.rs (lemma_filter_push).

pub open spec fn p_and<A>(p: spec_fn(A) -> bool, q: spec_fn(A) -> bool) -> spec_fn(A) -> bool { |x: A| p(x) && q(x) }

pub proof fn lemma_filter_add<A>(a: Seq<A>, b: Seq<A>, p: spec_fn(A) -> bool)
    ensures (a + b).filter(p) == a.filter(p) + b.filter(p)
    decreases b.len()
{
    if b.len() == 0 {
        reveal(Seq::filter);
        assert(a + b =~= a);
        assert(b.filter(p) =~= Seq::<A>::empty());
        assert(a.filter(p) + b.filter(p) =~= a.filter(p));
    } else {
        let t = b.drop_last();
        let x = b.last();
        lemma_filter_add(a, t, p);
        assert(a + b =~= (a + t).push(x));
        assert(b =~= t.push(x));
        lemma_filter_push(a + t, x, p);
        lemma_filter_push(t, x, p);
        if p(x) { assert((a.filter(p) + t.filter(p)).push(x) =~= a.filter(p) + t.filter(p).push(x)); }
    }
}
/// every element of a filter satisfies the predicate and is an element of the sequence
pub proof fn lemma_filter_elem<A>(a: Seq<A>, p: spec_fn(A) -> bool, i: int) -> (j: int)
    requires 0 <= i < a.filter(p).len()
    ensures 0 <= j < a.len(), a[j] == a.filter(p)[i], p(a[j])
    decreases a.len()
{
    reveal(Seq::filter);
    if a.len() == 0 { 0 } else {
        let t = a.drop_last();
        if p(a.last()) && i == t.filter(p).len() { a.len() - 1 }
        else { lemma_filter_elem(t, p, i) }
    }
}
/// every element of the sequence that satisfies the predicate is an element of the filter
pub proof fn lemma_filter_has<A>(a: Seq<A>, p: spec_fn(A) -> bool, j: int) -> (i: int)
    requires 0 <= j < a.len(), p(a[j])
    ensures 0 <= i < a.filter(p).len(), a.filter(p)[i] == a[j]
    decreases a.len()
{
    reveal(Seq::filter);
    let t = a.drop_last();
    if j == a.len() - 1 { t.filter(p).len() as int }
    else {
        let i = lemma_filter_has(t, p, j);
        i
    }
}
pub proof fn lemma_filter_ext<A>(a: Seq<A>, p: spec_fn(A) -> bool, q: spec_fn(A) -> bool)
    requires forall|i: int| 0 <= i < a.len() ==> p(#[trigger] a[i]) == q(a[i])
    ensures a.filter(p) == a.filter(q)
    decreases a.len()
{
    reveal(Seq::filter);
    if a.len() > 0 {
        let t = a.drop_last();
        assert forall|i: int| 0 <= i < t.len() implies p(#[trigger] t[i]) == q(t[i]) by { assert(t[i] == a[i]); }
        lemma_filter_ext(t, p, q);
        assert(p(a[a.len() - 1]) == q(a[a.len() - 1]));
    }
}
pub proof fn lemma_filter_none<A>(a: Seq<A>, p: spec_fn(A) -> bool)
    requires forall|i: int| 0 <= i < a.len() ==> !p(#[trigger] a[i])
    ensures a.filter(p) =~= Seq::<A>::empty()
    decreases a.len()
{
    reveal(Seq::filter);
    if a.len() > 0 {
        let t = a.drop_last();
        assert forall|i: int| 0 <= i < t.len() implies !p(#[trigger] t[i]) by { assert(t[i] == a[i]); }
        lemma_filter_none(t, p);
        assert(!p(a[a.len() - 1]));
    }
}
pub proof fn lemma_filter_and<A>(a: Seq<A>, p: spec_fn(A) -> bool, q: spec_fn(A) -> bool)
    ensures a.filter(p).filter(q) == a.filter(p_and(p, q))
    decreases a.len()
{
    reveal(Seq::filter);
    if a.len() > 0 {
        let t = a.drop_last();
        lemma_filter_and(t, p, q);
        if p(a.last()) { lemma_filter_push(t.filter(p), a.last(), q); }
    }
}
pub proof fn lemma_filter_commute<A>(a: Seq<A>, p: spec_fn(A) -> bool, q: spec_fn(A) -> bool)
    ensures a.filter(p).filter(q) == a.filter(q).filter(p)
{
    lemma_filter_and(a, p, q);
    lemma_filter_and(a, q, p);
    lemma_filter_ext(a, p_and(p, q), p_and(q, p));
}
/// q implies p on the elements: filtering by p first changes nothing
pub proof fn lemma_filter_implied<A>(a: Seq<A>, p: spec_fn(A) -> bool, q: spec_fn(A) -> bool)
    requires forall|i: int| 0 <= i < a.len() && q(#[trigger] a[i]) ==> p(a[i])
    ensures a.filter(p).filter(q) == a.filter(q)
{
    lemma_filter_and(a, p, q);
    lemma_filter_ext(a, p_and(p, q), q);
}
/// p and q exclude each other on the elements
pub proof fn lemma_filter_disjoint<A>(a: Seq<A>, p: spec_fn(A) -> bool, q: spec_fn(A) -> bool)
    requires forall|i: int| 0 <= i < a.len() ==> !(p(#[trigger] a[i]) && q(a[i]))
    ensures a.filter(p).filter(q) =~= Seq::<A>::empty()
{
    lemma_filter_and(a, p, q);
    lemma_filter_none(a, p_and(p, q));
}

// ---- multisets ---------------------------------------------------------------------------------------------
/// number of occurrences of x in a filtered sequence
pub proof fn lemma_filter_count<A>(a: Seq<A>, p: spec_fn(A) -> bool, x: A)
    ensures a.filter(p).to_multiset().count(x) == (if p(x) { a.to_multiset().count(x) } else { 0 })
    decreases a.len()
{
    broadcast use vstd::seq_lib::group_to_multiset_ensures;
    reveal(Seq::filter);
    if a.len() == 0 {
        assert(a.filter(p) =~= Seq::<A>::empty());
        assert(a =~= Seq::<A>::empty());
        Seq::<A>::empty().to_multiset_ensures();
        if Seq::<A>::empty().to_multiset().count(x) > 0 { assert(Seq::<A>::empty().contains(x)); }
    } else {
        let t = a.drop_last();
        let y = a.last();
        lemma_filter_count(t, p, x);
        assert(a =~= t.push(y));
        assert(t.push(y).to_multiset() =~= t.to_multiset().insert(y));
        lemma_filter_push(t, y, p);
        if p(y) { assert(t.filter(p).push(y).to_multiset() =~= t.filter(p).to_multiset().insert(y)); }
    }
}
/// two sequences with the same sub-sequence under every key of a partition are permutations of each other
/// (stated for the partition of definitions by file; pairs: lemma_same_per_key_multiset_pairs)
pub proof fn lemma_multiset_by_count<A>(a: Seq<A>, b: Seq<A>)
    requires forall|x: A| a.to_multiset().count(x) == b.to_multiset().count(x)
    ensures a.to_multiset() =~= b.to_multiset(), a.len() == b.len()
{
    broadcast use vstd::seq_lib::group_to_multiset_ensures;
    a.to_multiset_ensures();
    b.to_multiset_ensures();
    assert(a.to_multiset() =~= b.to_multiset());
    assert(a.len() == a.to_multiset().len());
    assert(b.len() == b.to_multiset().len());
}

// ---- maps of buckets: extensionality under "no empty bucket" ---------------------------------------------------
pub open spec fn seqmap_ne<K, T>(m: Map<K, Seq<T>>) -> bool { forall|k: K| m.contains_key(k) ==> (#[trigger] m[k]).len() > 0 }
pub open spec fn setmap_ne<K, T>(m: Map<K, Set<T>>) -> bool { forall|k: K| m.contains_key(k) ==> #[trigger] m[k] != Set::<T>::empty() }

pub proof fn lemma_seqmap_ext<K, T>(m1: Map<K, Seq<T>>, m2: Map<K, Seq<T>>)
    requires seqmap_ne(m1), seqmap_ne(m2), forall|k: K| #[trigger] bucket(m1, k) == bucket(m2, k)
    ensures m1 == m2
{
    assert forall|k: K| m1.contains_key(k) == m2.contains_key(k) by {
        assert(bucket(m1, k) == bucket(m2, k));
        if m1.contains_key(k) { assert(m1[k].len() > 0); }
        if m2.contains_key(k) { assert(m2[k].len() > 0); }
    }
    assert forall|k: K| m1.contains_key(k) implies m1[k] == m2[k] by { assert(bucket(m1, k) == bucket(m2, k)); }
    assert(m1 =~= m2);
}
pub proof fn lemma_setmap_ext<K, T>(m1: Map<K, Set<T>>, m2: Map<K, Set<T>>)
    requires setmap_ne(m1), setmap_ne(m2), forall|k: K| #[trigger] sbucket(m1, k) == sbucket(m2, k)
    ensures m1 == m2
{
    assert forall|k: K| m1.contains_key(k) == m2.contains_key(k) by {
        assert(sbucket(m1, k) == sbucket(m2, k));
        if m1.contains_key(k) { assert(m1[k] != Set::<T>::empty()); }
        if m2.contains_key(k) { assert(m2[k] != Set::<T>::empty()); }
    }
    assert forall|k: K| m1.contains_key(k) implies m1[k] == m2[k] by { assert(sbucket(m1, k) == sbucket(m2, k)); }
    assert(m1 =~= m2);
}
