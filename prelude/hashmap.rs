// ---------------------------------------------------------------------------------------------
// std::collections::HashMap specification shim (trusted base A3, transformation T6): same method names
// and signatures as the std type for the subset the extracted code uses (new, insert, get, contains_key,
// len, entry + or_insert / or_default).  Sequential view m(): Map<key view, V>; two keys are the same key
// iff their views are equal (for PathBuf / String / usize / tuples of them this is what Eq + Hash decide).
// No iteration is offered: nothing proved may depend on hash order.
// Needs prelude/path.rs and prelude/dashmap.rs (KeyView, Entry, default_val).
impl KeyView for usize { type KV = usize; open spec fn kview(&self) -> usize { *self } }
impl KeyView for (PathBuf, String) {
    type KV = (PV, Seq<char>);
    open spec fn kview(&self) -> (PV, Seq<char>) { (pbv(&self.0), self.1@) }
}

#[verifier::external_body]
#[verifier::reject_recursive_types(K)]
#[verifier::reject_recursive_types(V)]
pub struct HashMap<K: KeyView, V> { inner: std::collections::HashMap<K, V> }

impl<K: KeyView, V> HashMap<K, V> {
    pub uninterp spec fn m(&self) -> Map<K::KV, V>;

    #[verifier::external_body]
    pub fn new() -> (r: Self) ensures r.m() == Map::<K::KV, V>::empty()
    { unimplemented!() }

    #[verifier::external_body]
    pub fn insert(&mut self, k: K, v: V) -> (r: Option<V>)
        ensures final(self).m() == old(self).m().insert(k.kview(), v),
                r == (if old(self).m().contains_key(k.kview()) { Some(old(self).m()[k.kview()]) } else { None::<V> })
    { unimplemented!() }

    #[verifier::external_body]
    pub fn get<'a, Q: KeyView<KV = K::KV> + ?Sized>(&'a self, k: &Q) -> (r: Option<&'a V>)
        ensures match r {
            Some(v) => self.m().contains_key(k.kview()) && *v == self.m()[k.kview()],
            None => !self.m().contains_key(k.kview()) }
    { unimplemented!() }

    #[verifier::external_body]
    pub fn contains_key<Q: KeyView<KV = K::KV> + ?Sized>(&self, k: &Q) -> (r: bool)
        ensures r == self.m().contains_key(k.kview())
    { unimplemented!() }

    #[verifier::external_body]
    pub fn len(&self) -> (r: usize) ensures r == self.m().dom().len()
    { unimplemented!() }

    /// same Entry model as the DashMap shim: a mutable slot holding the current value, if any
    #[verifier::external_body]
    pub fn entry<'a>(&'a mut self, k: K) -> (e: Entry<'a, V>)
        ensures *e.slot == (if old(self).m().contains_key(k.kview()) { Some(old(self).m()[k.kview()]) } else { None::<V> }),
                final(self).m() == (match *final(e.slot) {
                    Some(v) => old(self).m().insert(k.kview(), v),
                    None => old(self).m().remove(k.kview()) })
    { unimplemented!() }
}

impl<'a, V> Entry<'a, V> {
    #[verifier::external_body]
    pub fn or_insert(self, default: V) -> (r: &'a mut V)
        ensures *r == (match *old(self.slot) { Some(v) => v, None => default }),
                *final(self.slot) == Some(*final(r))
    { unimplemented!() }
}

impl<K: KeyView, V> Default for HashMap<K, V> {
    #[verifier::external_body]
    fn default() -> (r: Self) ensures r.m() == Map::<K::KV, V>::empty()
    { unimplemented!() }
}
pub mod hm_ax {
    use super::*;
    pub broadcast axiom fn axiom_default_hashmap<K: KeyView, V>()
        ensures #[trigger] default_val::<HashMap<K, V>>().m() == Map::<K::KV, V>::empty();
}
pub use hm_ax::*;
