// ---------------------------------------------------------------------------------------------
// Operational specification of the per-file view `compute_available_fixtures` builds (C05): for every
// fixture name, WHICH definition ends up in the list.  Written from the code of resolver.rs, phase by
// phase; differences from `op_resolve` (go-to-definition) are deliberate and listed at `avail_pick`.

/// callee abstraction of imports.rs::get_imported_fixtures (owned by the imports unit): the set of names
/// file c provides through (transitive) imports, a function of the cached texts and the definitions
pub uninterp spec fn imported_set(texts: Map<PV, String>, defs: Map<Seq<char>, Seq<DefV>>, c: PV) -> Set<Seq<char>>;
pub open spec fn imp_of(texts: Map<PV, String>, defs: Map<Seq<char>, Seq<DefV>>) -> spec_fn(PV) -> Set<Seq<char>> {
    |c: PV| imported_set(texts, defs, c)
}

/// the part of the database the view depends on
pub ghost struct AvV {
    pub defs: Map<Seq<char>, Seq<DefV>>,          // definitions, per name, in registration order
    pub td: Set<PV>,                              // files with a cached text (file_cache keys)
    pub imp: spec_fn(PV) -> Set<Seq<char>>,       // names a file provides by import
}

pub open spec fn or_else(a: Option<DefV>, b: Option<DefV>) -> Option<DefV> { match a { Some(d) => Some(d), None => b } }

/// the import gate of the walk as the code tests it: cached text, else the file exists on disk
pub open spec fn av_gate(v: AvV, c: PV) -> bool { v.td.contains(c) || fs_exists(c) }

/// phase 4: first third-party definition
pub open spec fn av_third(v: AvV, n: Seq<char>) -> Option<DefV> { first_match(bucket(v.defs, n), p_third(fs_true())) }
/// phase 3 (then 4): first workspace-plugin definition
pub open spec fn av_plugin(v: AvV, n: Seq<char>) -> Option<DefV> {
    or_else(first_match(bucket(v.defs, n), p_plugin(fs_true())), av_third(v, n))
}
/// phase 2: the conftest walk from `dir` upwards: the FIRST own definition of dir/conftest.py, else — if that
/// conftest is cached or on disk and provides the name by import — the FIRST REGISTERED definition of the name
/// (whatever file it is in), else the parent directory
pub open spec fn avail_walk(ds: Seq<DefV>, dir: PV, v: AvV, n: Seq<char>) -> Option<DefV>
    decreases dir.len()
{
    let c = conftest_of(dir);
    match first_match(ds, p_same(c, fs_true())) {
        Some(d) => Some(d),
        None => if av_gate(v, c) && (v.imp)(c).contains(n) && ds.len() > 0 { Some(ds[0]) }
                else if pv_has_parent(dir) && dir.len() > 0 { avail_walk(ds, dir.drop_last(), v, n) }
                else { None },
    }
}
/// walk from dir, then phases 3 and 4
pub open spec fn av_from_dir(v: AvV, dir: PV, n: Seq<char>) -> Option<DefV> {
    or_else(avail_walk(bucket(v.defs, n), dir, v, n), av_plugin(v, n))
}
/// everything after phase 1.  NOTE: phases 3 and 4 run even when the file has no parent directory
pub open spec fn av_after_same(v: AvV, file: PV, n: Seq<char>) -> Option<DefV> {
    if pv_has_parent(file) && file.len() > 0 { av_from_dir(v, file.drop_last(), n) } else { av_plugin(v, n) }
}
/// the entry of the per-file view for name n (None: n is not offered).
///  * same file: the same-file definition with the greatest line; ties: the LAST such in registration order
///    (`.filter(same file).max_by_key(line)` returns the last maximum) — `best_same`, the very spec function
///    op_resolve uses for its same-file case (since the repair of F-05a; before: the FIRST same-file definition)
/// Remaining differences from op_resolve:
///  * import branch: ds[0] (op_resolve: first_match(ds, filter); equal for the trivial filter)
///  * a file without parent still gets plugin / third-party fixtures (op_resolve: None)
pub open spec fn avail_pick(v: AvV, file: PV, n: Seq<char>) -> Option<DefV> {
    or_else(best_same(bucket(v.defs, n), p_same(file, fs_true())), av_after_same(v, file, n))
}
/// what the view offered BEFORE the repair of F-05a: the FIRST same-file definition.  Kept as the reference point
/// of the canaries (prelude/avail_l2.rs): nothing proved about the code may hold for this function.
pub open spec fn avail_pick_first(v: AvV, file: PV, n: Seq<char>) -> Option<DefV> {
    or_else(first_match(bucket(v.defs, n), p_same(file, fs_true())), av_after_same(v, file, n))
}

// ---- residuals inside one walk step (dir = current_dir, c = dir/conftest.py)
/// after the own-definitions phase of the step: import branch, else go to the parent
pub open spec fn av_dir_imp(v: AvV, dir: PV, n: Seq<char>) -> Option<DefV> {
    let ds = bucket(v.defs, n);
    if av_gate(v, conftest_of(dir)) && (v.imp)(conftest_of(dir)).contains(n) && ds.len() > 0 { Some(ds[0]) } else { av_dir_par(v, dir, n) }
}
/// after the import phase of the step
pub open spec fn av_dir_par(v: AvV, dir: PV, n: Seq<char>) -> Option<DefV> {
    if pv_has_parent(dir) && dir.len() > 0 { av_from_dir(v, dir.drop_last(), n) } else { av_plugin(v, n) }
}
pub proof fn lemma_av_from_dir_unfold(v: AvV, dir: PV, n: Seq<char>)
    ensures av_from_dir(v, dir, n) == or_else(first_match(bucket(v.defs, n), p_same(conftest_of(dir), fs_true())), av_dir_imp(v, dir, n))
{
}

// ---- named residual functions (one term per phase; identical closures would be different terms)
pub open spec fn rf_pick(v: AvV, file: PV) -> spec_fn(Seq<char>) -> Option<DefV> { |n: Seq<char>| avail_pick(v, file, n) }
pub open spec fn rf_after_same(v: AvV, file: PV) -> spec_fn(Seq<char>) -> Option<DefV> { |n: Seq<char>| av_after_same(v, file, n) }
pub open spec fn rf_from_dir(v: AvV, dir: PV) -> spec_fn(Seq<char>) -> Option<DefV> { |n: Seq<char>| av_from_dir(v, dir, n) }
pub open spec fn rf_dir_imp(v: AvV, dir: PV) -> spec_fn(Seq<char>) -> Option<DefV> { |n: Seq<char>| av_dir_imp(v, dir, n) }
pub open spec fn rf_dir_par(v: AvV, dir: PV) -> spec_fn(Seq<char>) -> Option<DefV> { |n: Seq<char>| av_dir_par(v, dir, n) }
pub open spec fn rf_plugin(v: AvV) -> spec_fn(Seq<char>) -> Option<DefV> { |n: Seq<char>| av_plugin(v, n) }
pub open spec fn rf_third(v: AvV) -> spec_fn(Seq<char>) -> Option<DefV> { |n: Seq<char>| av_third(v, n) }
pub open spec fn rf_none() -> spec_fn(Seq<char>) -> Option<DefV> { |n: Seq<char>| None::<DefV> }

/// every definition is filed under its own name (index well-formedness, A7)
pub open spec fn wf_names(defs: Map<Seq<char>, Seq<DefV>>) -> bool {
    forall|n: Seq<char>, i: int| defs.contains_key(n) && 0 <= i < defs[n].len() ==> (#[trigger] defs[n][i]).name == n
}

// ---------------------------------------------------------------------------------------------
// The loop invariant, generic over the phase.  `pick` = the specification, `av` = the list built so far (views),
// `seen` = seen_names.  A phase turns residual `cur` into residual `nxt`, one name at a time (`done`).

/// the list is duplicate-free by name, `seen` is exactly its set of names, every entry is the pick of its name
#[verifier::opaque]
pub open spec fn av_ok(pick: spec_fn(Seq<char>) -> Option<DefV>, av: Seq<DefV>, seen: Set<Seq<char>>) -> bool {
    &&& forall|i: int, j: int| 0 <= i < j < av.len() ==> (#[trigger] av[i]).name != (#[trigger] av[j]).name
    &&& forall|k: int| 0 <= k < av.len() ==> seen.contains((#[trigger] av[k]).name) && pick(av[k].name) == Some(av[k])
    &&& forall|n: Seq<char>| seen.contains(n) ==> exists|k: int| 0 <= k < av.len() && (#[trigger] av[k]).name == n
}
/// between phases: names not yet in the list are decided by the residual `cur`
#[verifier::opaque]
pub open spec fn rest_inv(pick: spec_fn(Seq<char>) -> Option<DefV>, av: Seq<DefV>, seen: Set<Seq<char>>, cur: spec_fn(Seq<char>) -> Option<DefV>) -> bool {
    av_ok(pick, av, seen) && forall|n: Seq<char>| !seen.contains(n) ==> #[trigger] pick(n) == cur(n)
}
/// inside a phase: names already handled by the phase (`done`) are decided by `nxt`, the others by `cur`
#[verifier::opaque]
pub open spec fn step_inv(pick: spec_fn(Seq<char>) -> Option<DefV>, av: Seq<DefV>, seen: Set<Seq<char>>, done: Set<Seq<char>>,
                          cur: spec_fn(Seq<char>) -> Option<DefV>, nxt: spec_fn(Seq<char>) -> Option<DefV>) -> bool {
    av_ok(pick, av, seen) && forall|n: Seq<char>| !seen.contains(n) ==> #[trigger] pick(n) == cur(n) && (done.contains(n) ==> cur(n) == nxt(n))
}

pub proof fn lemma_rest_init(pick: spec_fn(Seq<char>) -> Option<DefV>)
    ensures rest_inv(pick, Seq::<DefV>::empty(), Set::<Seq<char>>::empty(), pick)
{
    reveal(rest_inv); reveal(av_ok);
}
pub proof fn lemma_step_start(pick: spec_fn(Seq<char>) -> Option<DefV>, av: Seq<DefV>, seen: Set<Seq<char>>,
                              cur: spec_fn(Seq<char>) -> Option<DefV>, nxt: spec_fn(Seq<char>) -> Option<DefV>)
    requires rest_inv(pick, av, seen, cur)
    ensures step_inv(pick, av, seen, Set::<Seq<char>>::empty(), cur, nxt)
{
    reveal(rest_inv); reveal(step_inv);
}
/// the phase adds definition d for name nm (not seen before): d is what `cur` says
pub proof fn lemma_step_push(pick: spec_fn(Seq<char>) -> Option<DefV>, av: Seq<DefV>, seen: Set<Seq<char>>, done: Set<Seq<char>>,
                             cur: spec_fn(Seq<char>) -> Option<DefV>, nxt: spec_fn(Seq<char>) -> Option<DefV>, nm: Seq<char>, d: DefV)
    requires step_inv(pick, av, seen, done, cur, nxt), !seen.contains(nm), cur(nm) == Some(d), d.name == nm
    ensures step_inv(pick, av.push(d), seen.insert(nm), done, cur, nxt)
{
    reveal(step_inv); reveal(av_ok);
    let av2 = av.push(d); let seen2 = seen.insert(nm);
    assert(pick(nm) == Some(d));
    assert forall|i: int, j: int| 0 <= i < j < av2.len() implies (#[trigger] av2[i]).name != (#[trigger] av2[j]).name by {
        if j == av.len() { assert(seen.contains(av[i].name)); } else { assert(av2[i] == av[i] && av2[j] == av[j]); }
    }
    assert forall|k: int| 0 <= k < av2.len() implies seen2.contains((#[trigger] av2[k]).name) && pick(av2[k].name) == Some(av2[k]) by {
        if k < av.len() { assert(av2[k] == av[k]); }
    }
    assert forall|n: Seq<char>| seen2.contains(n) implies exists|k: int| 0 <= k < av2.len() && (#[trigger] av2[k]).name == n by {
        if n == nm { assert(av2[av.len() as int].name == n); }
        else { let k = choose|k: int| 0 <= k < av.len() && (#[trigger] av[k]).name == n; assert(av2[k].name == n); }
    }
}
/// the phase is finished with name nm: it is in the list, or the phase has nothing for it
pub proof fn lemma_step_done(pick: spec_fn(Seq<char>) -> Option<DefV>, av: Seq<DefV>, seen: Set<Seq<char>>, done: Set<Seq<char>>,
                             cur: spec_fn(Seq<char>) -> Option<DefV>, nxt: spec_fn(Seq<char>) -> Option<DefV>, nm: Seq<char>)
    requires step_inv(pick, av, seen, done, cur, nxt), seen.contains(nm) || cur(nm) == nxt(nm)
    ensures step_inv(pick, av, seen, done.insert(nm), cur, nxt)
{
    reveal(step_inv);
}
/// every name the phase could have contributed has been handled
pub proof fn lemma_step_end(pick: spec_fn(Seq<char>) -> Option<DefV>, av: Seq<DefV>, seen: Set<Seq<char>>, done: Set<Seq<char>>,
                            cur: spec_fn(Seq<char>) -> Option<DefV>, nxt: spec_fn(Seq<char>) -> Option<DefV>)
    requires step_inv(pick, av, seen, done, cur, nxt), forall|n: Seq<char>| !done.contains(n) && !seen.contains(n) ==> #[trigger] cur(n) == nxt(n)
    ensures rest_inv(pick, av, seen, nxt)
{
    reveal(step_inv); reveal(rest_inv);
}
/// a residual may be replaced by an extensionally equal one
pub proof fn lemma_rest_eq(pick: spec_fn(Seq<char>) -> Option<DefV>, av: Seq<DefV>, seen: Set<Seq<char>>,
                           cur: spec_fn(Seq<char>) -> Option<DefV>, nxt: spec_fn(Seq<char>) -> Option<DefV>)
    requires rest_inv(pick, av, seen, cur), forall|n: Seq<char>| #[trigger] cur(n) == nxt(n)
    ensures rest_inv(pick, av, seen, nxt)
{
    reveal(rest_inv);
}

// ---------------------------------------------------------------------------------------------
// L1 postcondition of compute_available_fixtures on the list of views r
pub open spec fn avail_post(r: Seq<DefV>, v: AvV, file: PV) -> bool {
    // (i) sorted by name, one entry per name
    &&& forall|i: int, j: int| 0 <= i < j < r.len() ==> str_le((#[trigger] r[i]).name, (#[trigger] r[j]).name) && r[i].name != r[j].name
    // (ii) soundness: every entry is the pick of its name
    &&& forall|k: int| 0 <= k < r.len() ==> avail_pick(v, file, (#[trigger] r[k]).name) == Some(r[k])
    // (ii) completeness: every name with a pick has an entry
    &&& forall|n: Seq<char>| (#[trigger] avail_pick(v, file, n)) is Some ==> exists|k: int| 0 <= k < r.len() && (#[trigger] r[k]).name == n
}

// ---- a scan phase (own definitions of a conftest, plugins, third party):
//      `for entry in definitions { for def in entry.value() { if COND(def) && !seen(name) { push; insert } } }`
/// the phase takes, for every name not yet in the list, the first definition satisfying cond
pub open spec fn phase_rel(v: AvV, cur: spec_fn(Seq<char>) -> Option<DefV>, cond: spec_fn(DefV) -> bool, nxt: spec_fn(Seq<char>) -> Option<DefV>) -> bool {
    forall|n: Seq<char>| #[trigger] cur(n) == or_else(first_match(bucket(v.defs, n), cond), nxt(n))
}
pub proof fn lemma_scan_push(v: AvV, pick: spec_fn(Seq<char>) -> Option<DefV>, av: Seq<DefV>, seen: Set<Seq<char>>, done: Set<Seq<char>>,
                             cur: spec_fn(Seq<char>) -> Option<DefV>, nxt: spec_fn(Seq<char>) -> Option<DefV>, cond: spec_fn(DefV) -> bool,
                             nm: Seq<char>, i: int)
    requires wf_names(v.defs), step_inv(pick, av, seen, done, cur, nxt), phase_rel(v, cur, cond, nxt),
        v.defs.contains_key(nm), !seen.contains(nm), is_first(v.defs[nm], cond, i),
    ensures step_inv(pick, av.push(v.defs[nm][i]), seen.insert(nm), done, cur, nxt)
{
    lemma_first_idx(v.defs[nm], cond, i);
    assert(cur(nm) == Some(v.defs[nm][i]));
    lemma_step_push(pick, av, seen, done, cur, nxt, nm, v.defs[nm][i]);
}
pub proof fn lemma_scan_done(v: AvV, pick: spec_fn(Seq<char>) -> Option<DefV>, av: Seq<DefV>, seen: Set<Seq<char>>, done: Set<Seq<char>>,
                             cur: spec_fn(Seq<char>) -> Option<DefV>, nxt: spec_fn(Seq<char>) -> Option<DefV>, cond: spec_fn(DefV) -> bool, nm: Seq<char>)
    requires step_inv(pick, av, seen, done, cur, nxt), phase_rel(v, cur, cond, nxt),
        seen.contains(nm) || none_match(bucket(v.defs, nm), cond),
    ensures step_inv(pick, av, seen, done.insert(nm), cur, nxt)
{
    if !seen.contains(nm) { lemma_first_none(bucket(v.defs, nm), cond); assert(cur(nm) == nxt(nm)); }
    lemma_step_done(pick, av, seen, done, cur, nxt, nm);
}
pub proof fn lemma_scan_end(v: AvV, pick: spec_fn(Seq<char>) -> Option<DefV>, av: Seq<DefV>, seen: Set<Seq<char>>, done: Set<Seq<char>>,
                            cur: spec_fn(Seq<char>) -> Option<DefV>, nxt: spec_fn(Seq<char>) -> Option<DefV>, cond: spec_fn(DefV) -> bool)
    requires step_inv(pick, av, seen, done, cur, nxt), phase_rel(v, cur, cond, nxt),
        forall|n: Seq<char>| v.defs.contains_key(n) ==> done.contains(n),
    ensures rest_inv(pick, av, seen, nxt)
{
    assert forall|n: Seq<char>| !done.contains(n) && !seen.contains(n) implies #[trigger] cur(n) == nxt(n) by {
        assert(bucket(v.defs, n).len() == 0);
    }
    lemma_step_end(pick, av, seen, done, cur, nxt);
}

// ---- the same-file phase: `for entry in definitions { if let Some(def) = entry.value().iter().filter(COND).max_by_key(line)
//      { if !seen(name) { push; insert } } }`
/// the phase takes, for every name not yet in the list, the last definition of maximal line satisfying cond
pub open spec fn phase_rel_best(v: AvV, cur: spec_fn(Seq<char>) -> Option<DefV>, cond: spec_fn(DefV) -> bool, nxt: spec_fn(Seq<char>) -> Option<DefV>) -> bool {
    forall|n: Seq<char>| #[trigger] cur(n) == or_else(best_same(bucket(v.defs, n), cond), nxt(n))
}
pub proof fn lemma_best_push(v: AvV, pick: spec_fn(Seq<char>) -> Option<DefV>, av: Seq<DefV>, seen: Set<Seq<char>>, done: Set<Seq<char>>,
                             cur: spec_fn(Seq<char>) -> Option<DefV>, nxt: spec_fn(Seq<char>) -> Option<DefV>, cond: spec_fn(DefV) -> bool,
                             nm: Seq<char>, i: int)
    requires wf_names(v.defs), step_inv(pick, av, seen, done, cur, nxt), phase_rel_best(v, cur, cond, nxt),
        v.defs.contains_key(nm), !seen.contains(nm), is_best(v.defs[nm], cond, i),
    ensures step_inv(pick, av.push(v.defs[nm][i]), seen.insert(nm), done, cur, nxt)
{
    lemma_best_idx(v.defs[nm], cond, i);
    assert(cur(nm) == Some(v.defs[nm][i]));
    lemma_step_push(pick, av, seen, done, cur, nxt, nm, v.defs[nm][i]);
}
pub proof fn lemma_best_done(v: AvV, pick: spec_fn(Seq<char>) -> Option<DefV>, av: Seq<DefV>, seen: Set<Seq<char>>, done: Set<Seq<char>>,
                             cur: spec_fn(Seq<char>) -> Option<DefV>, nxt: spec_fn(Seq<char>) -> Option<DefV>, cond: spec_fn(DefV) -> bool, nm: Seq<char>)
    requires step_inv(pick, av, seen, done, cur, nxt), phase_rel_best(v, cur, cond, nxt),
        seen.contains(nm) || none_match(bucket(v.defs, nm), cond),
    ensures step_inv(pick, av, seen, done.insert(nm), cur, nxt)
{
    if !seen.contains(nm) { lemma_best_none(bucket(v.defs, nm), cond); assert(cur(nm) == nxt(nm)); }
    lemma_step_done(pick, av, seen, done, cur, nxt, nm);
}
pub proof fn lemma_best_end(v: AvV, pick: spec_fn(Seq<char>) -> Option<DefV>, av: Seq<DefV>, seen: Set<Seq<char>>, done: Set<Seq<char>>,
                            cur: spec_fn(Seq<char>) -> Option<DefV>, nxt: spec_fn(Seq<char>) -> Option<DefV>, cond: spec_fn(DefV) -> bool)
    requires step_inv(pick, av, seen, done, cur, nxt), phase_rel_best(v, cur, cond, nxt),
        forall|n: Seq<char>| v.defs.contains_key(n) ==> done.contains(n),
    ensures rest_inv(pick, av, seen, nxt)
{
    assert forall|n: Seq<char>| !done.contains(n) && !seen.contains(n) implies #[trigger] cur(n) == nxt(n) by {
        assert(bucket(v.defs, n).len() == 0);
    }
    lemma_step_end(pick, av, seen, done, cur, nxt);
}

// ---- the import phase of one walk step
pub proof fn lemma_imp_push(v: AvV, pick: spec_fn(Seq<char>) -> Option<DefV>, av: Seq<DefV>, seen: Set<Seq<char>>, done: Set<Seq<char>>, dir: PV, nm: Seq<char>)
    requires wf_names(v.defs), step_inv(pick, av, seen, done, rf_dir_imp(v, dir), rf_dir_par(v, dir)),
        av_gate(v, conftest_of(dir)), (v.imp)(conftest_of(dir)).contains(nm), v.defs.contains_key(nm), v.defs[nm].len() > 0, !seen.contains(nm),
    ensures step_inv(pick, av.push(v.defs[nm][0]), seen.insert(nm), done.insert(nm), rf_dir_imp(v, dir), rf_dir_par(v, dir))
{
    lemma_step_push(pick, av, seen, done, rf_dir_imp(v, dir), rf_dir_par(v, dir), nm, v.defs[nm][0]);
    lemma_step_done(pick, av.push(v.defs[nm][0]), seen.insert(nm), done, rf_dir_imp(v, dir), rf_dir_par(v, dir), nm);
}
pub proof fn lemma_imp_skip(v: AvV, pick: spec_fn(Seq<char>) -> Option<DefV>, av: Seq<DefV>, seen: Set<Seq<char>>, done: Set<Seq<char>>, dir: PV, nm: Seq<char>)
    requires step_inv(pick, av, seen, done, rf_dir_imp(v, dir), rf_dir_par(v, dir)),
        seen.contains(nm) || bucket(v.defs, nm).len() == 0,
    ensures step_inv(pick, av, seen, done.insert(nm), rf_dir_imp(v, dir), rf_dir_par(v, dir))
{
    lemma_step_done(pick, av, seen, done, rf_dir_imp(v, dir), rf_dir_par(v, dir), nm);
}
pub proof fn lemma_imp_end(v: AvV, pick: spec_fn(Seq<char>) -> Option<DefV>, av: Seq<DefV>, seen: Set<Seq<char>>, done: Set<Seq<char>>, dir: PV)
    requires step_inv(pick, av, seen, done, rf_dir_imp(v, dir), rf_dir_par(v, dir)),
        forall|n: Seq<char>| (v.imp)(conftest_of(dir)).contains(n) ==> done.contains(n),
    ensures rest_inv(pick, av, seen, rf_dir_par(v, dir))
{
    lemma_step_end(pick, av, seen, done, rf_dir_imp(v, dir), rf_dir_par(v, dir));
}
/// the conftest is neither cached nor on disk: the import phase is skipped
pub proof fn lemma_imp_closed(v: AvV, pick: spec_fn(Seq<char>) -> Option<DefV>, av: Seq<DefV>, seen: Set<Seq<char>>, dir: PV)
    requires rest_inv(pick, av, seen, rf_dir_imp(v, dir)), !av_gate(v, conftest_of(dir)),
    ensures rest_inv(pick, av, seen, rf_dir_par(v, dir))
{
    lemma_rest_eq(pick, av, seen, rf_dir_imp(v, dir), rf_dir_par(v, dir));
}
/// leaving a walk step: to the parent directory, or out of the walk
pub proof fn lemma_walk_next(v: AvV, pick: spec_fn(Seq<char>) -> Option<DefV>, av: Seq<DefV>, seen: Set<Seq<char>>, dir: PV)
    requires rest_inv(pick, av, seen, rf_dir_par(v, dir)),
    ensures pv_has_parent(dir) && dir.len() > 0 ==> rest_inv(pick, av, seen, rf_from_dir(v, dir.drop_last())),
        !(pv_has_parent(dir) && dir.len() > 0) ==> rest_inv(pick, av, seen, rf_plugin(v)),
{
    if pv_has_parent(dir) && dir.len() > 0 { lemma_rest_eq(pick, av, seen, rf_dir_par(v, dir), rf_from_dir(v, dir.drop_last())); }
    else { lemma_rest_eq(pick, av, seen, rf_dir_par(v, dir), rf_plugin(v)); }
}
/// entering the walk (or skipping it when the file has no parent)
pub proof fn lemma_walk_enter(v: AvV, pick: spec_fn(Seq<char>) -> Option<DefV>, av: Seq<DefV>, seen: Set<Seq<char>>, file: PV)
    requires rest_inv(pick, av, seen, rf_after_same(v, file)),
    ensures pv_has_parent(file) && file.len() > 0 ==> rest_inv(pick, av, seen, rf_from_dir(v, file.drop_last())),
        !(pv_has_parent(file) && file.len() > 0) ==> rest_inv(pick, av, seen, rf_plugin(v)),
{
    if pv_has_parent(file) && file.len() > 0 { lemma_rest_eq(pick, av, seen, rf_after_same(v, file), rf_from_dir(v, file.drop_last())); }
    else { lemma_rest_eq(pick, av, seen, rf_after_same(v, file), rf_plugin(v)); }
}

/// the end: every name is decided; sorting by name gives the postcondition
pub proof fn lemma_avail_final(v: AvV, file: PV, av: Seq<FixtureDefinition>, seen: Set<Seq<char>>, r: Seq<FixtureDefinition>, p: Seq<int>)
    requires rest_inv(rf_pick(v, file), dvs(av), seen, rf_none()),
        r.len() == av.len(), is_index_perm(p, av.len() as int), forall|i: int| 0 <= i < r.len() ==> #[trigger] r[i] == av[p[i]],
        sorted_by(r, name_cmp()),
    ensures avail_post(dvs(r), v, file)
{
    reveal(rest_inv); reveal(av_ok);
    let pick = rf_pick(v, file);
    let a = dvs(av); let rr = dvs(r);
    assert forall|i: int| 0 <= i < rr.len() implies #[trigger] rr[i] == a[p[i]] by { assert(r[i] == av[p[i]]); }
    assert forall|i: int, j: int| 0 <= i < j < rr.len() implies str_le((#[trigger] rr[i]).name, (#[trigger] rr[j]).name) && rr[i].name != rr[j].name by {
        assert(!(name_cmp()(r[i], r[j]) is Greater));
        assert(p[i] != p[j]);
        if p[i] < p[j] { assert(a[p[i]].name != a[p[j]].name); } else { assert(a[p[j]].name != a[p[i]].name); }
    }
    assert forall|k: int| 0 <= k < rr.len() implies avail_pick(v, file, (#[trigger] rr[k]).name) == Some(rr[k]) by {
        assert(pick(a[p[k]].name) == Some(a[p[k]]));
    }
    assert forall|n: Seq<char>| (#[trigger] avail_pick(v, file, n)) is Some implies exists|k: int| 0 <= k < rr.len() && (#[trigger] rr[k]).name == n by {
        assert(pick(n) is Some);
        assert(seen.contains(n));
        let q = choose|q: int| 0 <= q < a.len() && (#[trigger] a[q]).name == n;
        lemma_index_perm_onto(p, av.len() as int, q);
        let k = choose|k: int| 0 <= k < av.len() && #[trigger] p[k] == q;
        assert(rr[k].name == n);
    }
}

// ---------------------------------------------------------------------------------------------
// Operational specification of `resolve_fixture_for_file` (call-hierarchy outgoing calls), from the code.
/// priority-2 candidate: not third-party, the file is named conftest.py, has a parent directory, and that
/// directory is a prefix (component-wise) of the canonicalised requesting file
pub open spec fn ff_cand(cfile: PV) -> spec_fn(DefV) -> bool {
    |d: DefV| !d.is_third_party && pv_is_suffix(seq![conftest_name()], d.file) && pv_has_parent(d.file) && d.file.len() > 0
        && pv_is_prefix(d.file.drop_last(), cfile)
}
pub open spec fn ff_depth(d: DefV) -> int { d.file.drop_last().len() as int }
/// the fold the loop performs.  `best_depth` starts at usize::MAX, so for the FIRST candidate `depth > best_depth`
/// is false and the `best_conftest.is_none()` branch takes it; from then on best_depth is that candidate's depth
/// and a later candidate replaces it iff it is STRICTLY deeper.  Net effect: the deepest candidate; among equally
/// deep ones the first registered.
pub open spec fn ff_best(ds: Seq<DefV>, p: spec_fn(DefV) -> bool) -> Option<DefV>
    decreases ds.len()
{
    if ds.len() == 0 { None } else {
        let rest = ff_best(ds.drop_last(), p);
        let x = ds.last();
        if !p(x) { rest } else { match rest { None => Some(x), Some(y) => if ff_depth(x) > ff_depth(y) { Some(x) } else { Some(y) } } }
    }
}
/// what resolve_fixture_for_file computes (ds = definitions[name] in registration order, cfile = canonical path
/// of the file).  NOTE: imports are not consulted at all, and the fallback returns ds[0] whatever file it is in.
pub open spec fn op_resolve_ff(ds: Seq<DefV>, file: PV, cfile: PV) -> Option<DefV> {
    match first_match(ds, p_same(file, fs_true())) {
        Some(d) => Some(d),
        None => match ff_best(ds, ff_cand(cfile)) {
            Some(d) => Some(d),
            None => match first_match(ds, p_plugin(fs_true())) {
                Some(d) => Some(d),
                None => match first_match(ds, p_third(fs_true())) {
                    Some(d) => Some(d),
                    None => if ds.len() > 0 { Some(ds[0]) } else { None },
                },
            },
        },
    }
}
/// exec-level reading of p_plugin (a NAMED predicate: with the conjunction inlined in the closure contract the
/// `find` postcondition sent Z3 into a matching loop)
pub open spec fn x_ws_plugin(d: &FixtureDefinition) -> bool { d.is_plugin && !d.is_third_party }
pub open spec fn x_third(d: &FixtureDefinition) -> bool { d.is_third_party }
pub open spec fn is_ff_best(ds: Seq<DefV>, p: spec_fn(DefV) -> bool, i: int) -> bool {
    0 <= i < ds.len() && p(ds[i])
    && (forall|j: int| 0 <= j < ds.len() && p(#[trigger] ds[j]) ==> ff_depth(ds[j]) <= ff_depth(ds[i]))
    && (forall|j: int| 0 <= j < i && p(#[trigger] ds[j]) ==> ff_depth(ds[j]) < ff_depth(ds[i]))
}
/// ff_best = the first candidate of maximal depth (PROVED characterisation of the fold)
pub proof fn lemma_ff_best_props(ds: Seq<DefV>, p: spec_fn(DefV) -> bool)
    ensures match ff_best(ds, p) {
        None => none_match(ds, p),
        Some(b) => exists|i: int| is_ff_best(ds, p, i) && ds[i] == b,
    }
    decreases ds.len()
{
    if ds.len() > 0 {
        let t = ds.drop_last();
        lemma_ff_best_props(t, p);
        let x = ds.last();
        assert forall|j: int| 0 <= j < t.len() implies t[j] == ds[j] by {}
        match ff_best(t, p) {
            None => {
                if p(x) { assert(is_ff_best(ds, p, ds.len() - 1)); }
                else { assert forall|j: int| 0 <= j < ds.len() implies !p(#[trigger] ds[j]) by { if j < t.len() { assert(t[j] == ds[j]); } } }
            }
            Some(y) => {
                let i = choose|i: int| is_ff_best(t, p, i) && t[i] == y;
                if p(x) && ff_depth(x) > ff_depth(y) {
                    assert forall|j: int| 0 <= j < ds.len() && p(#[trigger] ds[j]) implies ff_depth(ds[j]) <= ff_depth(x) by { if j < t.len() { assert(t[j] == ds[j]); } }
                    assert forall|j: int| 0 <= j < ds.len() - 1 && p(#[trigger] ds[j]) implies ff_depth(ds[j]) < ff_depth(x) by { assert(t[j] == ds[j]); }
                    assert(is_ff_best(ds, p, ds.len() - 1));
                } else {
                    assert forall|j: int| 0 <= j < ds.len() && p(#[trigger] ds[j]) implies ff_depth(ds[j]) <= ff_depth(ds[i]) by { if j < t.len() { assert(t[j] == ds[j]); } }
                    assert forall|j: int| 0 <= j < i && p(#[trigger] ds[j]) implies ff_depth(ds[j]) < ff_depth(ds[i]) by { assert(t[j] == ds[j]); }
                    assert(is_ff_best(ds, p, i));
                }
            }
        }
    }
}
/// one loop step of the fold
pub proof fn lemma_ff_best_step(ds: Seq<DefV>, p: spec_fn(DefV) -> bool, i: int)
    requires 0 <= i < ds.len()
    ensures ff_best(ds.take(i + 1), p) == ({
        let rest = ff_best(ds.take(i), p); let x = ds[i];
        if !p(x) { rest } else { match rest { None => Some(x), Some(y) => if ff_depth(x) > ff_depth(y) { Some(x) } else { Some(y) } } } })
{
    assert(ds.take(i + 1).drop_last() =~= ds.take(i));
    assert(ds.take(i + 1).last() == ds[i]);
}

// ---------------------------------------------------------------------------------------------
// `.filter(p).max_by_key(k)` of phase 1.  `@rename filter vp_filter` (prelude/hof.rs) pairs the slice iterator with
// the filter closure; the selecting method then resolves, under its REAL name, to the inherent methods below, so a
// change of the selecting method in /repo (max_by_key -> min_by_key) stays a decided question instead of a lost anchor.
impl<'a, T, P: FnMut(&&'a T) -> bool> VpFilter<'a, T, P> {
    /// the contract of hof.rs::vp_max_by_key, word for word — PROVED here from that (assumed) contract: nothing new is
    /// assumed about `max_by_key`
    pub fn max_by_key<B: Ord, F: FnMut(&&'a T) -> B>(self, f: F) -> (r: Option<&'a T>)
        requires forall|x: &&'a T| #[trigger] call_requires(self.p, (x,)), forall|x: &&'a T| #[trigger] call_requires(f, (x,)),
        ensures ({
                let s = self.it.remaining();
                let p = self.p;
                &&& forall|j: int| 0 <= j < s.len() ==> call_ensures(p, (&#[trigger] s[j],), true) || call_ensures(p, (&s[j],), false)
                &&& forall|j: int| 0 <= j < s.len() && call_ensures(p, (&#[trigger] s[j],), true) ==> call_ensures(f, (&s[j],), vp_key(f, &s[j]))
                &&& match r {
                    None => forall|i: int| 0 <= i < s.len() ==> !call_ensures(p, (&#[trigger] s[i],), true),
                    Some(x) => ({
                        let i = vp_witness(s, x);
                        0 <= i < s.len() && s[i] == x && call_ensures(p, (&s[i],), true)
                        && (forall|j: int| 0 <= j < s.len() && call_ensures(p, (&#[trigger] s[j],), true)
                                ==> vp_le(vp_key(f, &s[j]), vp_key(f, &s[i])) && (j > i ==> !vp_le(vp_key(f, &s[i]), vp_key(f, &s[j]))))
                    }),
                }
            }),
    { self.vp_max_by_key(f) }
    /// DELIBERATELY without a contract (nothing is assumed, the result is unconstrained): the real code does not call
    /// it; a variant of the code that selects with `min_by_key` cannot establish the view's contract
    #[verifier::external_body]
    pub fn min_by_key<B: Ord, F: FnMut(&&'a T) -> B>(self, f: F) -> (r: Option<&'a T>)
    { self.it.filter(self.p).min_by_key(f) }
}
