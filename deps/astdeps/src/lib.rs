pub use rustpython_parser;
